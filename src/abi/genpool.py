#!/usr/bin/env python3
"""genpool.py <seed> <count> <out.c> <out.h>
Generates a pool of call prototypes, and for each one the C declaration gcc uses for the same thing:
 - a native CALLEE stub that records the byte image of every argument it received (C05), and
 - a native CALLER stub that passes images and stores what it got back (C06).
The harness picks prototype indexes and argument values at run time."""
import random
import sys

seed, count, out_c, out_h = int(sys.argv[1]), int(sys.argv[2]), sys.argv[3], sys.argv[4]
rnd = random.Random(seed * 7919 + 17)

SCALARS = ['i8', 'u8', 'i16', 'u16', 'i32', 'u32', 'i64', 'u64', 'p', 'f', 'd', 'ld']
CT = {'i8': 'int8_t', 'u8': 'uint8_t', 'i16': 'int16_t', 'u16': 'uint16_t', 'i32': 'int32_t', 'u32': 'uint32_t',
      'i64': 'int64_t', 'u64': 'uint64_t', 'p': 'void *', 'f': 'float', 'd': 'double', 'ld': 'long double'}
SIZE = {'i8': 1, 'u8': 1, 'i16': 2, 'u16': 2, 'i32': 4, 'u32': 4, 'i64': 8, 'u64': 8, 'p': 8, 'f': 4, 'd': 8, 'ld': 10}
MIRT = {'i8': 'MIR_T_I8', 'u8': 'MIR_T_U8', 'i16': 'MIR_T_I16', 'u16': 'MIR_T_U16', 'i32': 'MIR_T_I32', 'u32': 'MIR_T_U32',
        'i64': 'MIR_T_I64', 'u64': 'MIR_T_U64', 'p': 'MIR_T_P', 'f': 'MIR_T_F', 'd': 'MIR_T_D', 'ld': 'MIR_T_LD'}

structs = {}


def blk_struct(kind, size):
    """C struct that the SysV ABI passes the way MIR passes blk<kind>:<size>."""
    name = 'sb%d_%d' % (kind, size)
    if name in structs:
        return name
    if kind == 0:
        body = 'char c[%d];' % size  # > 16 bytes: MEMORY class (28 is the sibling size of 24)
    elif kind == 1:
        body = {8: 'long a;', 16: 'long a, b;', 4: 'int a;', 12: 'long a; int b;'}[size]
    elif kind == 2:
        body = {8: 'double a;', 16: 'double a, b;'}[size]
    elif kind == 3:
        body = 'long a; double b;'
    else:
        body = 'double a; long b;'
    structs[name] = 'struct %s { %s };' % (name, body)
    return name


def rand_arg(allow_blk=True):
    r = rnd.random()
    if allow_blk and r < 0.22:
        kind = rnd.choice([0, 1, 1, 2, 3, 4])
        size = {0: rnd.choice([24, 32, 40, 48, 28]), 1: rnd.choice([8, 16, 16, 4, 12]), 2: rnd.choice([8, 16]), 3: 16, 4: 16}[kind]
        return ('blk', kind, size)
    w = rnd.random()
    if w < 0.35:
        return ('s', rnd.choice(['i64', 'i64', 'u64', 'p', 'i32', 'u32', 'i16', 'u16', 'i8', 'u8']))
    if w < 0.7:
        return ('s', rnd.choice(['d', 'd', 'f']))
    if w < 0.8:
        return ('s', 'ld')
    return ('s', rnd.choice(SCALARS))


RES_SHAPES = [[], [], ['i64'], ['d'], ['f'], ['ld'], ['i32'], ['u8'], ['i16'], ['u32'], ['u16'], ['i8'], ['p'],
              ['i64', 'i64'], ['d', 'd'], ['i64', 'd'], ['d', 'i64'], ['d', 'f'], ['f', 'd']]

protos = []
for k in range(count):
    shape = rnd.random()
    if shape < 0.15:
        nargs = rnd.randint(0, 3)
    elif shape < 0.6:
        nargs = rnd.randint(3, 10)
    else:
        nargs = rnd.randint(8, 22)  # overflows both register files
    # some prototypes are dominated by one class so that its register file certainly overflows
    bias = rnd.random()
    args = []
    for i in range(nargs):
        if bias < 0.2:
            args.append(('s', rnd.choice(['i64', 'i32', 'u8', 'p', 'i64', 'u16'])) if rnd.random() < 0.8 else rand_arg())
        elif bias < 0.4:
            args.append(('s', rnd.choice(['d', 'f', 'd'])) if rnd.random() < 0.8 else rand_arg())
        else:
            args.append(rand_arg())
    res = list(rnd.choice(RES_SHAPES))
    rblk = 0
    if rnd.random() < 0.08:
        rblk = rnd.choice([24, 40])
        res = []
    vararg_fixed = -1
    if rnd.random() < 0.22 and nargs >= 1 and not rblk:
        vararg_fixed = rnd.randint(1, min(3, nargs))
        # tail arguments are what C promotes to: long / double / long double / 16-byte int struct
        fixed = [a if a[0] == 's' else ('s', 'i64') for a in args[:vararg_fixed]]
        tail = []
        for i in range(rnd.randint(0, 9)):
            t = rnd.random()
            tail.append(('s', 'i64') if t < 0.4 else ('s', 'd') if t < 0.8 else ('s', 'ld') if t < 0.9 else ('blk', 1, 16))
        args = fixed + tail
    protos.append(dict(args=args, res=res, rblk=rblk, vfixed=vararg_fixed, sibling=-1))

SIB = {(1, 8): 12, (1, 12): 8, (0, 24): 28, (0, 28): 24}
for k in range(count):
    p = protos[k]
    idx = [i for i, a in enumerate(p['args']) if a[0] == 'blk' and (a[1], a[2]) in SIB and (p['vfixed'] < 0 or i < p['vfixed'])]
    if not idx or rnd.random() < 0.3:
        continue
    i = rnd.choice(idx)
    a = p['args'][i]
    q = dict(p)
    q['args'] = list(p['args'])
    q['args'][i] = ('blk', a[1], SIB[(a[1], a[2])])
    q['sibling'] = k
    p['sibling'] = len(protos)
    protos.append(q)
count = len(protos)


def ctype(a):
    return CT[a[1]] if a[0] == 's' else 'struct ' + blk_struct(a[1], a[2])


def asize(a):
    return SIZE[a[1]] if a[0] == 's' else a[2]


def res_struct(res):
    if len(res) == 1:
        return CT[res[0]]
    name = 'sr_' + '_'.join(res)
    if name not in structs:
        structs[name] = 'struct %s { %s a; %s b; };' % (name, CT[res[0]], CT[res[1]])
    return 'struct ' + name


c = ['/* generated by genpool.py seed=%d count=%d */' % (seed, count), '#include <stdint.h>', '#include <string.h>', '#include <stdarg.h>',
     '#include "abi_pool.h"', 'unsigned char abi_rec[ABI_MAX_ARGS * ABI_SLOT];', 'int abi_rec_n, abi_rec_align, abi_rec_proto;',
     'unsigned char abi_ret[64];']
bodies = []
for k, p in enumerate(protos):
    args, res, rblk = p['args'], p['res'], p['rblk']
    if rblk:
        rname = 'sbig_%d' % rblk
        structs[rname] = 'struct %s { char c[%d]; };' % (rname, rblk)
        rt = 'struct ' + rname
    elif not res:
        rt = 'void'
    else:
        rt = res_struct(res)
    nfix = p['vfixed'] if p['vfixed'] >= 0 else len(args)
    params = ', '.join('%s a%d' % (ctype(a), i) for i, a in enumerate(args[:nfix]))
    if p['vfixed'] >= 0:
        params += ', ...'
    if not params:
        params = 'void'
    # ---- callee (C05)
    b = ['static %s __attribute__ ((noinline)) abi_callee_%d (%s) {' % (rt, k, params), '  abi_rec_proto = %d; abi_rec_n = %d;' % (k, len(args)),
         '  abi_rec_align = (int) ((uintptr_t) __builtin_frame_address (0) & 15);']
    for i, a in enumerate(args[:nfix]):
        b.append('  memcpy (abi_rec + %d * ABI_SLOT, &a%d, %d);' % (i, i, asize(a)))
    if p['vfixed'] >= 0:
        b.append('  va_list ap; va_start (ap, a%d);' % (nfix - 1))
        for i, a in enumerate(args[nfix:], start=nfix):
            b.append('  { %s v = va_arg (ap, %s); memcpy (abi_rec + %d * ABI_SLOT, &v, %d); }' % (ctype(a), ctype(a), i, asize(a)))
        b.append('  va_end (ap);')
    if rblk:
        b.append('  { %s r; memcpy (&r, abi_ret, %d); return r; }' % (rt, rblk))
    elif len(res) == 1:
        b.append('  { %s r; memcpy (&r, abi_ret, %d); return r; }' % (rt, SIZE[res[0]]))
    elif len(res) == 2:
        b.append('  { %s r; memcpy (&r.a, abi_ret, %d); memcpy (&r.b, abi_ret + 16, %d); return r; }' % (rt, SIZE[res[0]], SIZE[res[1]]))
    b.append('}')
    # ---- caller (C06)
    fixed_types = ', '.join(ctype(a) for a in args[:nfix])
    if p['vfixed'] >= 0:
        fixed_types += ', ...'
    if not fixed_types:
        fixed_types = 'void'
    b.append('static void abi_caller_%d (void *fn, const unsigned char *in, unsigned char *out) {' % k)
    for i, a in enumerate(args):
        b.append('  %s a%d; memcpy (&a%d, in + %d * ABI_SLOT, %d);' % (ctype(a), i, i, i, asize(a)))
    call = '((%s (*) (%s)) fn) (%s)' % (rt, fixed_types, ', '.join('a%d' % i for i in range(len(args))))
    if rblk:
        b.append('  { %s r = %s; memcpy (out, &r, %d); }' % (rt, call, rblk))
    elif not res:
        b.append('  %s;' % call)
    elif len(res) == 1:
        b.append('  { %s r = %s; memset (out, 0, 16); memcpy (out, &r, %d); }' % (rt, call, SIZE[res[0]]))
    else:
        b.append('  { %s r = %s; memset (out, 0, 32); memcpy (out, &r.a, %d); memcpy (out + 16, &r.b, %d); }' % (rt, call, SIZE[res[0]], SIZE[res[1]]))
    b.append('  (void) out; (void) in;')
    b.append('}')
    bodies.append('\n'.join(b))

c += list(structs.values())
c += bodies
c.append('void *const abi_callees[] = {%s};' % ', '.join('(void *) abi_callee_%d' % k for k in range(count)))
c.append('abi_caller_t const abi_callers[] = {%s};' % ', '.join('abi_caller_%d' % k for k in range(count)))
c.append('const int abi_nprotos = %d;' % count)
c.append('const struct abi_proto abi_protos[] = {')
for p in protos:
    al = ', '.join('{%s, %d}' % (MIRT[a[1]] if a[0] == 's' else 'MIR_T_BLK + %d' % a[1], 0 if a[0] == 's' else a[2]) for a in p['args'])
    rl = ', '.join(MIRT[r] for r in p['res'])
    c.append('  {%d, {%s}, %d, {%s}, %d, %d, %d},' % (len(p['args']), al if al else '{0, 0}', len(p['res']), rl if rl else '0', p['vfixed'], p['rblk'], p['sibling']))
c.append('};')
open(out_c, 'w').write('\n'.join(c) + '\n')
open(out_h, 'w').write('''/* generated by genpool.py */
#ifndef ABI_POOL_H
#define ABI_POOL_H
#include "mir.h"
#define ABI_MAX_ARGS 24
#define ABI_SLOT 64
struct abi_arg { int type; int size; };
struct abi_proto { int nargs; struct abi_arg args[ABI_MAX_ARGS]; int nres; int res[2]; int vfixed; int rblk; int sibling; };
typedef void (*abi_caller_t) (void *fn, const unsigned char *in, unsigned char *out);
#ifdef __cplusplus
extern "C" {
#endif
extern const struct abi_proto abi_protos[];
extern const int abi_nprotos;
extern void *const abi_callees[];
extern abi_caller_t const abi_callers[];
extern unsigned char abi_rec[ABI_MAX_ARGS * ABI_SLOT];
extern int abi_rec_n, abi_rec_align, abi_rec_proto;
extern unsigned char abi_ret[64];
#ifdef __cplusplus
}
#endif
#endif
''')
