// C16 — code generation leaves the MIR program intact and can be repeated.
// A generated multi-module program is put through a history: modules loaded and linked in one or two steps (the
// module with `entry` possibly after the others were already generated), whole-function generation requested
// explicitly in any order and repeatedly, textual output, interpretation and calls through the public address.
// Oracles: (1) the text of every function and of every label-reference table is the same before and after any
// generation, (2) asking again for the code of a function returns the same address, (3) every execution — MIR_interp
// or a call through entry->addr, before or after generation — equals the reference evaluator.
#include "progdiff.h"
using namespace pd;

enum Iface { IF_INTERP, IF_GEN, IF_LAZY };
static const char *iface_names[] = {"interp", "gen", "lazy-gen"};

static std::string item_text (MIR_context_t ctx, MIR_item_t it) {
  char *p = NULL;
  size_t n = 0;
  FILE *f = open_memstream (&p, &n);
  MIR_output_item (ctx, f, it);
  fclose (f);
  std::string s (p, n);
  free (p);
  return s;
}

struct Tracked {
  MIR_item_t item;
  std::string name, text;
  void *first_code = NULL;
  int gens = 0;
};

// functions and label-reference data: what the claim is about (protos/imports may be added by the generator)
static void track_new (MIR_context_t ctx, std::vector<Tracked> &tr) {
  for (MIR_module_t m = DLIST_HEAD (MIR_module_t, *MIR_get_module_list (ctx)); m != NULL; m = DLIST_NEXT (MIR_module_t, m))
    for (MIR_item_t it = DLIST_HEAD (MIR_item_t, m->items); it != NULL; it = DLIST_NEXT (MIR_item_t, it)) {
      if (it->item_type != MIR_func_item && it->item_type != MIR_lref_data_item) continue;
      bool seen = false;
      for (auto &t : tr) seen |= t.item == it;
      if (seen) continue;
      Tracked t;
      t.item = it;
      t.name = it->item_type == MIR_func_item ? it->u.func->name : (it->u.lref_data->name ? it->u.lref_data->name : "<lref>");
      t.text = item_text (ctx, it);
      tr.push_back (t);
    }
}

static bool check_texts (MIR_context_t ctx, std::vector<Tracked> &tr, const char *when, Outcome &o) {
  for (auto &t : tr) {
    std::string now = item_text (ctx, t.item);
    if (now != t.text) {
      size_t i = 0;
      while (i < now.size () && i < t.text.size () && now[i] == t.text[i]) i++;
      size_t b = t.text.rfind ('\n', i);
      b = b == std::string::npos ? 0 : b + 1;
      o.fail (std::string ("C16:text-changed:") + (t.item->item_type == MIR_func_item ? "func" : "lref"),
              strfmt ("%s %s prints differently %s (it was generated %d time(s)).\nbefore: %s\nafter:  %s", t.item->item_type == MIR_func_item ? "function" : "item",
                      t.name.c_str (), when, t.gens, t.text.substr (b, t.text.find ('\n', i) - b).c_str (), now.substr (b, now.find ('\n', i) - b).c_str ()));
      return false;
    }
  }
  return true;
}

static void do_link (MIR_context_t ctx, Iface f) {
  MIR_link (ctx, f == IF_INTERP ? MIR_set_interp_interface : f == IF_GEN ? MIR_set_gen_interface : MIR_set_lazy_gen_interface, NULL);
}

static void case_fn (CS &cs, Outcome &o) {
  GenCfg base;
  base.min_funcs = 2;
  base.max_funcs = 5;
  base.max_blocks = 4;
  base.multi_module = true;
  base.layered_modules = true;
  base.passive_items = true;
  base.force_calls = true;
  base.call_weight = 5;
  base.first_block_calls = 2;
  base.const_branches = false;
  base.single_switch = false;
  g_min_depth = 1;
  Case c;
  if (!make_case (cs, base, c, o)) return;
  label_features (c, o);
  int level = (int) cs.range (0, 1);
  Iface if1 = (Iface) cs.range (0, 2), if2 = (Iface) cs.range (0, 2);
  size_t nmods = c.prog.mods.size ();
  bool late = nmods > 1 && cs.chance (170);
  o.label (late ? "entry_module_linked_after_generation" : "linked_in_one_step");
  o.label (std::string ("first_link_") + iface_names[late ? if1 : if2]);
  if (harness_opt ("reduce")) { o.disc ("no reducer for histories"); return; }
  std::string early_text, late_text;
  for (size_t i = 0; i < nmods; i++) (late && i + 1 == nmods ? late_text : early_text) += module_text (c.prog.mods[i]);
  std::vector<int> entry_res;
  for (auto &m : c.prog.mods)
    for (auto &f : m.funcs)
      if (f.name == "entry") entry_res = f.res;

  std::string hist = strfmt ("history: opt level %d; ", level);
  MIR_context_t ctx = MIR_init ();
  if (setjmp (g_err_jb)) {
    o.sample += hist + "\n";
    return o.fail ("C16:liberror", strfmt ("library error %d: %s\n%s", g_err_code, g_err_msg, hist.c_str ()));
  }
  MIR_set_error_func (ctx, err_func);
  MIR_gen_init (ctx);
  MIR_gen_set_optimize_level (ctx, (unsigned) level);
  std::vector<Tracked> tr;
  auto load_all_new = [&] () {
    for (MIR_module_t m = DLIST_HEAD (MIR_module_t, *MIR_get_module_list (ctx)); m != NULL; m = DLIST_NEXT (MIR_module_t, m)) {
      bool loaded = false;
      for (MIR_item_t it = DLIST_HEAD (MIR_item_t, m->items); it != NULL; it = DLIST_NEXT (MIR_item_t, it))
        if (it->item_type == MIR_func_item && it->addr != NULL) loaded = true;
      if (!loaded) MIR_load_module (ctx, m);
    }
  };
  int n_gen_ops = 0, n_regen = 0, n_exec_after_gen = 0, n_interp_after_gen = 0;
  bool any_generated = false;
  auto funcs_of = [&] () {
    std::vector<size_t> v;
    for (size_t i = 0; i < tr.size (); i++)
      if (tr[i].item->item_type == MIR_func_item) v.push_back (i);
    return v;
  };
  auto op_gen = [&] () -> bool {
    auto fs = funcs_of ();
    if (fs.empty ()) return true;  // the earlier modules hold no function
    Tracked &t = tr[fs[cs.range (0, fs.size () - 1)]];
    hist += "gen(" + t.name + ") ";
    o.sample = c.text + hist + "\n";
    o.publish ();
    void *a = MIR_gen (ctx, t.item);
    n_gen_ops++;
    any_generated = true;
    if (t.gens++ > 0) n_regen++;
    if (a == NULL) { o.fail ("C16:gen-null", "MIR_gen returned NULL for " + t.name + "\n" + hist); return false; }
    if (t.first_code != NULL && a != t.first_code) {
      o.fail ("C16:address-changed", strfmt ("MIR_gen (%s) returned %p, the previous request returned %p\n%s", t.name.c_str (), a, t.first_code, hist.c_str ()));
      return false;
    }
    if (a != t.item->addr) {
      o.fail ("C16:address-not-public", strfmt ("MIR_gen (%s) returned %p but the item's public address is %p\n%s", t.name.c_str (), a, t.item->addr, hist.c_str ()));
      return false;
    }
    t.first_code = a;
    return true;
  };
  auto run_entry = [&] (bool interp) -> bool {
    MIR_item_t entry = find_item (ctx, "entry");
    size_t ii = cs.range (0, c.inputs.size () - 1);
    const Input &in = c.inputs[ii];
    hist += strfmt ("%s(entry,input%zu) ", interp ? "interp" : "call", ii);
    o.sample = c.text + hist + "\n";
    o.publish ();
    uint8_t *buf = the_buffer ();
    memcpy (buf, in.buf, MM_BUF_SIZE);
    g_native_log.clear ();
    Obs ob;
    ob.res_types = entry_res;
    if (interp) {
      MIR_val_t res[4], args[5];
      memset (res, 0, sizeof (res));
      args[0].i = in.depth, args[1].i = in.a0, args[2].i = in.a1, args[3].d = in.x0, args[4].a = buf;
      MIR_interp_arr (ctx, entry, res, 5, args);
      Val v0, v1;
      v0.def = v1.def = true;
      v0.i = res[0].i, v1.d = res[1].d;
      ob.results = {v0, v1};
    } else {
      RetID r = ((entry_fn_t) entry->addr) (in.depth, in.a0, in.a1, in.x0, buf);
      ob.results = {VI (r.i), VD (r.d)};
    }
    ob.log = g_native_log;
    ob.buf.assign (buf, buf + MM_BUF_SIZE);
    if (any_generated) (interp ? n_interp_after_gen : n_exec_after_gen)++;
    std::string d = compare_obs (c.ref[ii], ob);
    if (!d.empty ()) {
      std::string kind = d.substr (0, d.find_first_of (" :"));
      o.fail (std::string ("C16:behaviour:") + (interp ? "interp:" : "call:") + kind, d + "\n" + hist);
      return false;
    }
    return true;
  };

  // ---- step 1
  MIR_scan_string (ctx, early_text.c_str ());
  load_all_new ();
  load_ext_natives (ctx);
  Iface first = late ? if1 : if2;
  hist += std::string ("link(") + iface_names[first] + ") ";
  do_link (ctx, first);
  if (first == IF_GEN) any_generated = true;
  track_new (ctx, tr);
  if (late) {
    for (int k = (int) cs.range (0, 5); k > 0; k--) {
      if (cs.chance (170)) { if (!op_gen ()) return; }
      else { hist += "output "; if (!check_texts (ctx, tr, ("after " + hist).c_str (), o)) return; }
    }
    if (!check_texts (ctx, tr, "before the late module is loaded", o)) return;
    // ---- step 2: the module with entry arrives after the others were generated
    MIR_scan_string (ctx, late_text.c_str ());
    load_all_new ();
    hist += std::string ("load+link(") + iface_names[if2] + ") ";
    do_link (ctx, if2);
    if (if2 == IF_GEN) any_generated = true;
    if (!check_texts (ctx, tr, "after linking the late module", o)) return;
    track_new (ctx, tr);
  }
  for (int k = (int) cs.range (2, 8); k > 0; k--) {
    switch (cs.weighted ({3, 2, 3, 3})) {
    case 0: if (!op_gen ()) return; break;
    case 1: hist += "output "; if (!check_texts (ctx, tr, ("after " + hist).c_str (), o)) return; break;
    case 2: if (!run_entry (true)) return; break;
    default: if (!run_entry (false)) return; break;
    }
  }
  if (!check_texts (ctx, tr, "at the end of the history", o)) return;
  bool has_lref = false, has_global = false;
  for (auto &t : tr) {
    has_lref |= t.item->item_type == MIR_lref_data_item;
    has_global |= t.item->item_type == MIR_func_item && t.item->u.func->global_vars != NULL;
  }
  MIR_gen_finish (ctx);
  MIR_finish (ctx);
  o.sample = c.text + hist + "\n";
  if (n_regen) o.label ("function_generated_again");
  if (n_interp_after_gen) o.label ("interpreted_after_generation");
  if (n_exec_after_gen) o.label ("called_after_generation");
  if (has_lref) o.label ("lref_tables");
  if (has_global) o.label ("hard_register_variable");
  // non-trivial: something was generated explicitly and afterwards the program was executed or printed again
  o.nontrivial = n_gen_ops > 0 && (n_interp_after_gen + n_exec_after_gen) > 0;
}

int main (int argc, char **argv) {
  HarnessCfg cfg = {};
  cfg.property = "C16";
  cfg.fn = case_fn;
  cfg.fork_per_case = true;
  cfg.timeout_s = 20;
  cfg.len_scale = 160;
  return harness_main (argc, argv, cfg);
}
