// C02 — every instruction computes its documented result: opcode x operand shape x value grid x engine,
// against the reference evaluator. One tiny function per (opcode, shape); values come in as inputs.
#include "progdiff.h"
using namespace pd;

enum Cls { CI64, CI32, CF, CD, CLD };
struct OpDesc {
  int code;
  int nsrc;
  Cls dst, s1, s2;
  int kind;  // 0 value insn, 1 compare-and-branch, 2 overflow insn (+ flag branch)
};
static std::vector<OpDesc> g_ops;

static void build_table () {
  auto V2 = [] (int c, Cls d, Cls s) { g_ops.push_back ({c, 1, d, s, s, 0}); };
  auto V3 = [] (int c, Cls d, Cls s) { g_ops.push_back ({c, 2, d, s, s, 0}); };
  auto B2 = [] (int c, Cls s) { g_ops.push_back ({c, 1, CI64, s, s, 1}); };
  auto B3 = [] (int c, Cls s) { g_ops.push_back ({c, 2, CI64, s, s, 1}); };
  V2 (MIR_MOV, CI64, CI64); V2 (MIR_FMOV, CF, CF); V2 (MIR_DMOV, CD, CD); V2 (MIR_LDMOV, CLD, CLD);
  for (int c : {MIR_EXT8, MIR_EXT16, MIR_EXT32, MIR_UEXT8, MIR_UEXT16, MIR_UEXT32}) V2 (c, CI64, CI32);
  V2 (MIR_I2F, CF, CI64); V2 (MIR_I2D, CD, CI64); V2 (MIR_I2LD, CLD, CI64);
  V2 (MIR_UI2F, CF, CI64); V2 (MIR_UI2D, CD, CI64); V2 (MIR_UI2LD, CLD, CI64);
  V2 (MIR_F2I, CI64, CF); V2 (MIR_D2I, CI64, CD); V2 (MIR_LD2I, CI64, CLD);
  V2 (MIR_F2D, CD, CF); V2 (MIR_F2LD, CLD, CF); V2 (MIR_D2F, CF, CD); V2 (MIR_D2LD, CLD, CD);
  V2 (MIR_LD2F, CF, CLD); V2 (MIR_LD2D, CD, CLD);
  V2 (MIR_NEG, CI64, CI64); V2 (MIR_NEGS, CI32, CI32); V2 (MIR_FNEG, CF, CF); V2 (MIR_DNEG, CD, CD); V2 (MIR_LDNEG, CLD, CLD);
  for (int c : {MIR_ADD, MIR_SUB, MIR_MUL, MIR_DIV, MIR_UDIV, MIR_MOD, MIR_UMOD, MIR_AND, MIR_OR, MIR_XOR, MIR_LSH, MIR_RSH,
                MIR_URSH, MIR_EQ, MIR_NE, MIR_LT, MIR_ULT, MIR_LE, MIR_ULE, MIR_GT, MIR_UGT, MIR_GE, MIR_UGE})
    V3 (c, CI64, CI64);
  for (int c : {MIR_ADDS, MIR_SUBS, MIR_MULS, MIR_DIVS, MIR_UDIVS, MIR_MODS, MIR_UMODS, MIR_ANDS, MIR_ORS, MIR_XORS, MIR_LSHS,
                MIR_RSHS, MIR_URSHS, MIR_EQS, MIR_NES, MIR_LTS, MIR_ULTS, MIR_LES, MIR_ULES, MIR_GTS, MIR_UGTS, MIR_GES, MIR_UGES})
    V3 (c, CI32, CI32);
  for (int c : {MIR_FADD, MIR_FSUB, MIR_FMUL, MIR_FDIV}) V3 (c, CF, CF);
  for (int c : {MIR_DADD, MIR_DSUB, MIR_DMUL, MIR_DDIV}) V3 (c, CD, CD);
  for (int c : {MIR_LDADD, MIR_LDSUB, MIR_LDMUL, MIR_LDDIV}) V3 (c, CLD, CLD);
  for (int c : {MIR_FEQ, MIR_FNE, MIR_FLT, MIR_FLE, MIR_FGT, MIR_FGE}) V3 (c, CI64, CF);
  for (int c : {MIR_DEQ, MIR_DNE, MIR_DLT, MIR_DLE, MIR_DGT, MIR_DGE}) V3 (c, CI64, CD);
  for (int c : {MIR_LDEQ, MIR_LDNE, MIR_LDLT, MIR_LDLE, MIR_LDGT, MIR_LDGE}) V3 (c, CI64, CLD);
  B2 (MIR_BT, CI64); B2 (MIR_BF, CI64); B2 (MIR_BTS, CI32); B2 (MIR_BFS, CI32);
  for (int c : {MIR_BEQ, MIR_BNE, MIR_BLT, MIR_UBLT, MIR_BLE, MIR_UBLE, MIR_BGT, MIR_UBGT, MIR_BGE, MIR_UBGE}) B3 (c, CI64);
  for (int c : {MIR_BEQS, MIR_BNES, MIR_BLTS, MIR_UBLTS, MIR_BLES, MIR_UBLES, MIR_BGTS, MIR_UBGTS, MIR_BGES, MIR_UBGES}) B3 (c, CI32);
  for (int c : {MIR_FBEQ, MIR_FBNE, MIR_FBLT, MIR_FBLE, MIR_FBGT, MIR_FBGE}) B3 (c, CF);
  for (int c : {MIR_DBEQ, MIR_DBNE, MIR_DBLT, MIR_DBLE, MIR_DBGT, MIR_DBGE}) B3 (c, CD);
  for (int c : {MIR_LDBEQ, MIR_LDBNE, MIR_LDBLT, MIR_LDBLE, MIR_LDBGT, MIR_LDBGE}) B3 (c, CLD);
  for (int c : {MIR_ADDO, MIR_SUBO, MIR_MULO, MIR_UMULO}) g_ops.push_back ({c, 2, CI64, CI64, CI64, 2});
  for (int c : {MIR_ADDOS, MIR_SUBOS, MIR_MULOS, MIR_UMULOS}) g_ops.push_back ({c, 2, CI32, CI32, CI32, 2});
}

// shapes
enum Shape { S_RR, S_RI, S_IR, S_MR, S_RM, S_MABS, S_D1, S_D2, S_SAME, S_DM, S_NARROW, S_NSHAPES };
static const char *shape_names[] = {"reg,reg", "reg,imm", "imm,reg", "mem{base}|reg", "reg|mem{disp,base,index,scale}", "mem{abs}|reg",
                                    "dst==src1", "dst==src2", "src1==src2", "dst=mem", "narrow-mem-src"};

// buffer layout of an input: [0,16) src1 (typed image), [16,32) src2, [32,48) narrow variants,
// result slots: [160,176) value, [176,184) branch/flag taken; LD zone [192,256) holds src1/src2 for ld
#define OFF_S1 0
#define OFF_S2 16
#define OFF_RES 160
#define OFF_FLAG 176
#define OFF_LD1 192
#define OFF_LD2 208
#define OFF_LDRES 224

static int mem_type_of (Cls c) { return c == CF ? MIR_T_F : c == CD ? MIR_T_D : c == CLD ? MIR_T_LD : MIR_T_I64; }
static RC rc_of (Cls c) { return c == CF ? FR : c == CD ? DR : c == CLD ? LDR : c == CI32 ? W32 : W64; }
static int mov_of (Cls c) { return c == CF ? MIR_FMOV : c == CD ? MIR_DMOV : c == CLD ? MIR_LDMOV : MIR_MOV; }

struct Pair {
  int64_t i1, i2;
  double d1, d2;
  float f1, f2;
  long double l1, l2;
};

static Pair gen_pair (CS &cs, bool same) {
  Pair p;
  p.i1 = pick_int (cs);
  p.i2 = cs.chance (40) ? (int64_t) cs.range (0, 70) : pick_int (cs);  // small values matter for shifts
  p.d1 = pick_d (cs, false);
  p.d2 = pick_d (cs, false);
  p.f1 = pick_f (cs, false);
  p.f2 = pick_f (cs, false);
  p.l1 = pick_ld (cs, false);
  p.l2 = pick_ld (cs, false);
  if (same) {
    p.i2 = p.i1; p.d2 = p.d1; p.f2 = p.f1; p.l2 = p.l1;
  }
  return p;
}

static Input make_input (const Pair &p) {
  Input in;
  memset (&in, 0, sizeof (in));
  in.depth = 0;
  in.a0 = p.i1;
  in.a1 = p.i2;
  in.x0 = p.d1;
  memcpy (in.buf + OFF_S1, &p.i1, 8);
  memcpy (in.buf + OFF_S2, &p.i2, 8);
  memcpy (in.buf + 32, &p.d1, 8);
  memcpy (in.buf + 40, &p.d2, 8);
  memcpy (in.buf + 48, &p.f1, 4);
  memcpy (in.buf + 52, &p.f2, 4);
  memcpy (in.buf + OFF_LD1, &p.l1, 10);
  memcpy (in.buf + OFF_LD2, &p.l2, 10);
  long double z = 0;
  memcpy (in.buf + OFF_LDRES, &z, 10);
  return in;
}
// where the typed image of source k lives in the buffer
static int64_t src_off (Cls c, int k) {
  switch (c) {
  case CD: return 32 + 8 * k;
  case CF: return 48 + 4 * k;
  case CLD: return k == 0 ? OFF_LD1 : OFF_LD2;
  default: return k == 0 ? OFF_S1 : OFF_S2;
  }
}

// Build the one-instruction program. imm: the pair whose values are baked in for immediate shapes.
static bool build_prog (const OpDesc &od, int shape, const Pair &imm, int narrow_t, int flag_branch, bool pollute, int layout, Prog &prog, std::string &why) {
  Func f;
  f.name = "entry";
  f.lab_prefix = "0";
  f.res = {MIR_T_I64, MIR_T_D};
  f.args = {{MIR_T_I64, "depth"}, {MIR_T_I64, "a0"}, {MIR_T_I64, "a1"}, {MIR_T_D, "x0"}, {MIR_T_P, "buf"}};
  for (auto &a : f.args) f.regs.push_back ({a.type == MIR_T_D ? DR : a.type == MIR_T_P ? ADDR : W64, a.name});
  int r_buf = 4;
  int s1 = f.new_reg (rc_of (od.s1), "s"), s2 = f.new_reg (rc_of (od.s2), "t"), dst = f.new_reg (rc_of (od.dst), "res");
  int idx = f.new_reg (W64, "idx"), zero = f.new_reg (W64, "z");
  f.add (MIR_MOV, {Op::R (idx), Op::I (2)});
  f.add (MIR_MOV, {Op::R (zero), Op::I (0)});
  // load sources into registers
  auto load_src = [&] (int reg, Cls c, int k) {
    if (c == CI64 || c == CI32) f.add (MIR_MOV, {Op::R (reg), Op::R (k == 0 ? 1 : 2)});
    else f.add (mov_of (c), {Op::R (reg), Op::M (mem_type_of (c), src_off (c, k), r_buf)});
  };
  load_src (s1, od.s1, 0);
  load_src (s2, od.s2, 1);
  // initialise dst (aliasing shapes overwrite it)
  if (od.dst == CI64 || od.dst == CI32) f.add (MIR_MOV, {Op::R (dst), Op::I (0x5a5a)});
  else load_src (dst, od.dst, 0);
  auto imm_op = [&] (Cls c, int k) -> Op {
    switch (c) {
    case CF: return Op::F (k == 0 ? imm.f1 : imm.f2);
    case CD: return Op::D (k == 0 ? imm.d1 : imm.d2);
    case CLD: return Op::LD (k == 0 ? imm.l1 : imm.l2);
    default: return Op::I (k == 0 ? imm.i1 : imm.i2);
    }
  };
  auto finite = [&] (Cls c, int k) {
    switch (c) {
    case CF: { float v = k == 0 ? imm.f1 : imm.f2; return v - v == 0; }
    case CD: { double v = k == 0 ? imm.d1 : imm.d2; return v - v == 0; }
    case CLD: { long double v = k == 0 ? imm.l1 : imm.l2; return v - v == 0; }
    default: return true;
    }
  };
  Op o1 = Op::R (s1), o2 = Op::R (s2), od_ = Op::R (dst);
  bool has2 = od.nsrc == 2;
  switch (shape) {
  case S_RR: break;
  case S_RI:
    if (has2) { if (!finite (od.s2, 1)) { why = "non-finite immediate"; return false; } o2 = imm_op (od.s2, 1); }
    else { if (!finite (od.s1, 0)) { why = "non-finite immediate"; return false; } o1 = imm_op (od.s1, 0); }
    break;
  case S_IR:
    if (!finite (od.s1, 0)) { why = "non-finite immediate"; return false; }
    o1 = imm_op (od.s1, 0);
    break;
  case S_MR: o1 = Op::M (mem_type_of (od.s1), src_off (od.s1, 0), r_buf); break;
  case S_RM:
    if (!has2) { why = "no second source"; return false; }
    if (od.s2 == CLD) o2 = Op::M (MIR_T_LD, OFF_LD2, r_buf);
    else {  // disp(base,index,scale) with idx==2
      int64_t off = src_off (od.s2, 1);
      int scale = od.s2 == CF ? 2 : 8;
      o2 = Op::M (mem_type_of (od.s2), off - 2 * scale, r_buf, idx, scale);
    }
    break;
  case S_MABS: o1 = Op::M (mem_type_of (od.s1), (int64_t) (MM_BUF_ADDR + src_off (od.s1, 0)), -1); break;
  case S_D1:
    if (od.dst != od.s1 && !((od.dst == CI64 || od.dst == CI32) && (od.s1 == CI64 || od.s1 == CI32))) { why = "class mismatch"; return false; }
    if (od.kind == 1) { why = "branch has no dst"; return false; }
    od_ = Op::R (s1);
    break;
  case S_D2:
    if (!has2 || od.kind == 1) { why = "n/a"; return false; }
    if (od.dst != od.s2 && !((od.dst == CI64 || od.dst == CI32) && (od.s2 == CI64 || od.s2 == CI32))) { why = "class mismatch"; return false; }
    od_ = Op::R (s2);
    break;
  case S_SAME:
    if (!has2) { why = "n/a"; return false; }
    o2 = o1;
    break;
  case S_DM:
    if (od.kind == 1) { why = "n/a"; return false; }
    if (od.dst == CLD) od_ = Op::M (MIR_T_LD, OFF_LDRES, r_buf);
    else if (od.dst == CI32) od_ = Op::M (narrow_t == MIR_T_I64 || narrow_t == MIR_T_U64 ? MIR_T_U32 : narrow_t, OFF_RES, r_buf, zero, 4);
    else if (od.dst == CI64) od_ = Op::M (narrow_t, OFF_RES, r_buf, zero, 4);
    else od_ = Op::M (mem_type_of (od.dst), OFF_RES, r_buf);
    break;
  case S_NARROW:
    if (!(od.s1 == CI64 || od.s1 == CI32)) { why = "n/a"; return false; }
    o1 = Op::M (narrow_t, OFF_S1, r_buf);
    break;
  }
  int taken = f.new_label (), done = f.new_label ();
  if (od.kind == 2 && pollute) {
    // leave a set overflow flag behind (signed and unsigned): an insn that fails to (re)compute its own
    // flag - e.g. because it was rewritten into a move - is then caught by the following branch
    int lp = f.new_label (), pt = f.new_reg (W64, "pol");
    f.add (MIR_ADDO, {Op::R (pt), Op::I (INT64_MIN), Op::I (INT64_MIN)});
    f.add (MIR_BO, {Op::L (lp)});
    f.label (lp);
  }
  if (od.kind == 1) {
    if (has2) f.add (od.code, {Op::L (taken), o1, o2});
    else f.add (od.code, {Op::L (taken), o1});
    if (layout == 1) {  // "bcond L; jmp L2; L:" - the shape the link-time branch reversal looks for
      int nott = f.new_label ();
      f.add (MIR_JMP, {Op::L (nott)});
      f.label (taken);
      f.add (MIR_MOV, {Op::M (MIR_T_I64, OFF_FLAG, r_buf), Op::I (1)});
      f.add (MIR_JMP, {Op::L (done)});
      f.label (nott);
      f.add (MIR_MOV, {Op::M (MIR_T_I64, OFF_FLAG, r_buf), Op::I (0)});
      f.label (done);
    } else {
      f.add (MIR_MOV, {Op::M (MIR_T_I64, OFF_FLAG, r_buf), Op::I (0)});
      f.add (MIR_JMP, {Op::L (done)});
      f.label (taken);
      f.add (MIR_MOV, {Op::M (MIR_T_I64, OFF_FLAG, r_buf), Op::I (1)});
      f.label (done);
    }
  } else {
    if (has2) f.add (od.code, {od_, o1, o2});
    else f.add (od.code, {od_, o1});
    if (od.kind == 2) {
      f.add (flag_branch, {Op::L (taken)});
      if (layout == 1) {
        int nott = f.new_label ();
        f.add (MIR_JMP, {Op::L (nott)});
        f.label (taken);
        f.add (MIR_MOV, {Op::M (MIR_T_I64, OFF_FLAG, r_buf), Op::I (1)});
        f.add (MIR_JMP, {Op::L (done)});
        f.label (nott);
        f.add (MIR_MOV, {Op::M (MIR_T_I64, OFF_FLAG, r_buf), Op::I (0)});
        f.label (done);
      } else {
        f.add (MIR_MOV, {Op::M (MIR_T_I64, OFF_FLAG, r_buf), Op::I (0)});
        f.add (MIR_JMP, {Op::L (done)});
        f.label (taken);
        f.add (MIR_MOV, {Op::M (MIR_T_I64, OFF_FLAG, r_buf), Op::I (1)});
        f.label (done);
      }
    }
    // make the result observable: 32-bit results only through their low half (+ ext32/uext32 of it)
    if (od_.k == Op::REG) {
      int r = od_.reg;
      switch (od.dst) {
      case CI64: f.add (MIR_MOV, {Op::M (MIR_T_I64, OFF_RES, r_buf), Op::R (r)}); break;
      case CI32: {
        f.add (MIR_MOV, {Op::M (MIR_T_U32, OFF_RES, r_buf), Op::R (r)});
        int e = f.new_reg (W64, "e");
        f.add (MIR_EXT32, {Op::R (e), Op::R (r)});
        f.add (MIR_MOV, {Op::M (MIR_T_I64, OFF_RES + 8, r_buf), Op::R (e)});
        break;
      }
      case CF: f.add (MIR_FMOV, {Op::M (MIR_T_F, OFF_RES, r_buf), Op::R (r)}); break;
      case CD: f.add (MIR_DMOV, {Op::M (MIR_T_D, OFF_RES, r_buf), Op::R (r)}); break;
      case CLD: f.add (MIR_LDMOV, {Op::M (MIR_T_LD, OFF_LDRES, r_buf), Op::R (r)}); break;
      }
    }
  }
  f.add (MIR_RET, {Op::R (1), Op::R (3)});
  Module m;
  m.name = "m0";
  m.add_decl (Item::EXPORT, "entry");
  m.add_func (f);
  prog.mods.push_back (m);
  return true;
}

static void check_case (const Case &c, Outcome &o) {
  static const Engine engines[] = {E_INTERP, E_GEN0, E_GEN1, E_GEN2, E_GEN3};
  std::string bad, first_kind, first_diff, base_sample = o.sample;
  for (Engine e : engines) {
    o.sample = base_sample + "[engine being run: " + engine_names[e] + "]\n";
    o.publish ();
    std::string kind, d = check_engine (c, e, kind);
    if (!d.empty ()) {
      bad += std::string (bad.empty () ? "" : "+") + engine_names[e];
      if (first_diff.empty ()) first_kind = kind, first_diff = std::string (engine_names[e]) + ": " + d;
    }
  }
  o.sample = base_sample;
  if (!bad.empty ()) o.fail (o.sig, first_diff + "\n(engines disagreeing with the reference evaluator: " + bad + ")");
}

static void case_fn (CS &cs, Outcome &o) {
  size_t oi = cs.range (0, g_ops.size () - 1);
  const OpDesc &od = g_ops[oi];
  int shape = (int) cs.range (0, S_NSHAPES - 1);
  int immk = (int) cs.range (0, 9);
  static const int nts[] = {MIR_T_I64, MIR_T_I8, MIR_T_U8, MIR_T_I16, MIR_T_U16, MIR_T_I32, MIR_T_U32, MIR_T_U64};
  int narrow_t = nts[cs.range (0, 7)];
  static const int fbr_s[] = {MIR_BO, MIR_BNO}, fbr_u[] = {MIR_UBO, MIR_UBNO}, fbr_any[] = {MIR_BO, MIR_BNO, MIR_UBO, MIR_UBNO};
  int flag_branch = 0;
  if (od.kind == 2) {
    if (od.code == MIR_MULO || od.code == MIR_MULOS) flag_branch = fbr_s[cs.range (0, 1)];
    else if (od.code == MIR_UMULO || od.code == MIR_UMULOS) flag_branch = fbr_u[cs.range (0, 1)];
    else flag_branch = fbr_any[cs.range (0, 3)];
  }
  // immediates worth baking in: identity / absorbing / power-of-two values exercise the algebraic shortcuts
  Pair imm = gen_pair (cs, false);
  if (immk < 7) {  // forced special immediate (the enumeration walks immk for the immediate shapes)
    static const int64_t sp[] = {0, 1, -1, 2, 8, 0x80000000LL, 64};
    static const double dsp[] = {0.0, 1.0, -1.0, 2.0, 0.5, 1.0, 2.0};
    imm.i1 = imm.i2 = sp[immk];
    imm.d1 = imm.d2 = dsp[immk];
    imm.f1 = imm.f2 = (float) dsp[immk];
    imm.l1 = imm.l2 = (long double) dsp[immk];
  }
  if (od.kind == 2 && shape == S_DM && known_excluded ("F23")) {
    o.disc ("excluded:F23 overflow insn with memory destination");
    return;
  }
  Case c;
  std::string why;
  std::string sig = std::string (insn_name (od.code)) + ":" + shape_names[shape];
  if (flag_branch) sig += std::string ("+") + insn_name (flag_branch);
  bool pollute = od.kind == 2 && !cs.chance (64);
  int layout = immk & 1; /* branch layout alternates with the enumeration's rep counter */
  if (!build_prog (od, shape, imm, narrow_t, flag_branch, pollute, layout, c.prog, why)) {
    o.disc ("shape n/a");
    return;
  }
  c.text = prog_text (c.prog);
  int npairs = (int) cs.range (4, 24);
  int n_undef = 0;
  bool boundary = false;
  for (int k = 0; k < npairs; k++) {
    Pair p = gen_pair (cs, shape == S_SAME);
    if (shape == S_RI) { if (od.nsrc == 2) { p.i2 = imm.i2; p.d2 = imm.d2; p.f2 = imm.f2; p.l2 = imm.l2; } else { p.i1 = imm.i1; p.d1 = imm.d1; p.f1 = imm.f1; p.l1 = imm.l1; } }
    if (shape == S_IR) { p.i1 = imm.i1; p.d1 = imm.d1; p.f1 = imm.f1; p.l1 = imm.l1; }
    Input in = make_input (p);
    Obs ob;
    RefStats st;
    std::string w;
    try {
      w = run_reference (c.prog, in, ob, &st);
    } catch (ModelError &e) {
      o.sample = c.text;
      o.fail ("harness:model-error", e.why + "\n" + c.text);
      return;
    }
    if (!w.empty ()) {
      n_undef++;
      continue;
    }
    if ((p.i1 > 1 || p.i1 < -1) && (p.i2 > 1 || p.i2 < -1)) boundary = true;
    c.inputs.push_back (in);
    c.ref.push_back (ob);
    c.stats.push_back (st);
  }
  o.label (std::string ("op:") + insn_name (od.code));
  o.label (std::string ("shape:") + shape_names[shape]);
  std::string s = c.text;
  for (auto &in : c.inputs) s += strfmt ("input: a0=%ld a1=%ld s1/s2 images=%s ld=%s\n", (long) in.a0, (long) in.a1, hexs (in.buf, 56).c_str (), hexs (in.buf + OFF_LD1, 32).c_str ());
  o.sample = s;
  o.hash = fnv1a_s (s);
  if (c.inputs.empty ()) {
    o.disc ("all value pairs undefined for this insn");
    return;
  }
  if (n_undef) o.label ("some_pairs_undefined");
  o.nontrivial = boundary || od.s1 == CF || od.s1 == CD || od.s1 == CLD;
  o.sig = "C02:" + sig;
  if (harness_opt ("reduce")) {
    // value-level reduction: find a single failing input
    for (size_t i = 0; i < c.inputs.size (); i++) {
      Case c1 = c;
      c1.inputs = {c.inputs[i]};
      c1.ref = {c.ref[i]};
      c1.stats = {c.stats[i]};
      Outcome r = run_isolated ([&] (Outcome &oo) { oo.sig = o.sig; check_case (c1, oo); });
      if (r.v == V_FAIL) {
        const Input &in = c1.inputs[0];
        o.sample = "REDUCED:\n" + c1.text + strfmt ("input: a0=%ld a1=%ld s1/s2 images=%s ld=%s\n", (long) in.a0, (long) in.a1, hexs (in.buf, 56).c_str (), hexs (in.buf + OFF_LD1, 32).c_str ());
        o.fail (r.sig.empty () ? o.sig : r.sig, r.detail);
        return;
      }
    }
    return;
  }
  o.publish ();
  check_case (c, o);
}

// exhaustive over opcode x shape (x flag branch); values from a deterministic stream per combination
static void enumerate (int tier) {
  int shard = 0, nshards = 1;
  if (const char *s = harness_opt ("shard")) sscanf (s, "%d/%d", &shard, &nshards);
  uint32_t seed = 12345;
  if (const char *s = harness_opt ("vseed")) seed = (uint32_t) atol (s);
  int reps = tier ? 12 : 1;
  uint64_t idx = 0;
  for (size_t oi = 0; oi < g_ops.size (); oi++)
    for (int shape = 0; shape < S_NSHAPES; shape++)
      for (int rep = 0; rep < ((shape == S_RI || shape == S_IR) ? 8 * reps : g_ops[oi].kind ? 2 * reps : reps); rep++, idx++) {
        if ((int) (idx % nshards) != shard) continue;
        std::vector<uint8_t> b;
        b.push_back ((uint8_t) oi);  // cs.range(0,n-1) with n<=256 takes one byte
        b.push_back ((uint8_t) shape);
        b.push_back ((uint8_t) (rep % 10));  // immk: special immediates 0,1,-1,2,8,2^31,64 then random
        uint32_t lcg = seed * 2654435761u + (uint32_t) idx * 40503u + 1;
        for (int k = 0; k < 900; k++) {
          lcg = lcg * 1664525u + 1013904223u;
          b.push_back ((uint8_t) (lcg >> 24));
        }
        Outcome r = run_one (b);
        if (r.v == V_FAIL && !harness_opt ("keep_going")) return;
      }
}

static void init () { build_table (); }

int main (int argc, char **argv) {
  HarnessCfg cfg = {};
  cfg.property = "C02";
  cfg.fn = case_fn;
  cfg.fork_per_case = true;
  cfg.timeout_s = 20;
  cfg.len_scale = 12;
  cfg.enumerate = enumerate;
  cfg.init = init;
  return harness_main (argc, argv, cfg);
}
