// C10 / C11 — textual and binary MIR round trips (one harness, the property is chosen with --opt prop=C10|C11).
// Mode A: a module over the full item / operand vocabulary built through the API.
// Mode B: a generated executable program (ProgGen) read from text; execution is compared too.
#include "progdiff.h"
#include <deque>
using namespace pd;

static bool g_c11 = false;
static std::string P () { return g_c11 ? "C11" : "C10"; }

// ---------------------------------------------------------------- helpers
static std::string out_text (MIR_context_t ctx) {
  char *buf = NULL;
  size_t len = 0;
  FILE *f = open_memstream (&buf, &len);
  MIR_output (ctx, f);
  fclose (f);
  std::string s (buf, len);
  free (buf);
  return s;
}
static std::vector<uint8_t> *g_wbuf;
static int byte_writer (MIR_context_t, uint8_t b) {
  g_wbuf->push_back (b);
  return 1;
}
static const std::vector<uint8_t> *g_rbuf;
static size_t g_rpos;
static int byte_reader (MIR_context_t) { return g_rpos < g_rbuf->size () ? (*g_rbuf)[g_rpos++] : EOF; }

static std::vector<uint8_t> write_bin (MIR_context_t ctx, bool via_file) {
  std::vector<uint8_t> v;
  if (via_file) {
    char *buf = NULL;
    size_t len = 0;
    FILE *f = open_memstream (&buf, &len);
    MIR_write (ctx, f);
    fclose (f);
    v.assign ((uint8_t *) buf, (uint8_t *) buf + len);
    free (buf);
  } else {
    g_wbuf = &v;
    MIR_write_with_func (ctx, byte_writer);
  }
  return v;
}
static void read_bin (MIR_context_t ctx, const std::vector<uint8_t> &b, bool via_file) {
  if (via_file) {
    FILE *f = fmemopen ((void *) b.data (), b.size (), "rb");
    MIR_read (ctx, f);
    fclose (f);
  } else {
    g_rbuf = &b;
    g_rpos = 0;
    MIR_read_with_func (ctx, byte_reader);
  }
}

// label numbers are context-global counters; the text names labels only by spelling: rename by first occurrence
static std::string normalise_labels (const std::string &t) {
  std::string out;
  std::map<std::string, int> m;
  size_t i = 0;
  while (i < t.size ()) {
    if (t[i] == 'L' && i + 1 < t.size () && isdigit ((unsigned char) t[i + 1]) && (i == 0 || !(isalnum ((unsigned char) t[i - 1]) || t[i - 1] == '_' || t[i - 1] == '.'))) {
      size_t j = i + 1;
      while (j < t.size () && isdigit ((unsigned char) t[j])) j++;
      if (j < t.size () && (isalnum ((unsigned char) t[j]) || t[j] == '_')) {  // identifier like L1x: not a label
        out.append (t, i, j - i);
        i = j;
        continue;
      }
      std::string name = t.substr (i, j - i);
      auto it = m.find (name);
      int n = it == m.end () ? (m[name] = (int) m.size ()) : it->second;
      out += "L#" + std::to_string (n);
      i = j;
    } else
      out.push_back (t[i++]);
  }
  return out;
}
static std::string first_diff (const std::string &a, const std::string &b) {
  size_t i = 0;
  while (i < a.size () && i < b.size () && a[i] == b[i]) i++;
  size_t ls = a.rfind ('\n', i == 0 ? 0 : i - 1);
  ls = ls == std::string::npos ? 0 : ls + 1;
  size_t le_a = a.find ('\n', i), le_b = b.find ('\n', i);
  return strfmt ("at offset %zu:\n  first : %s\n  second: %s", i, a.substr (ls, (le_a == std::string::npos ? a.size () : le_a) - ls).c_str (),
                 b.substr (ls < b.size () ? ls : b.size (), (le_b == std::string::npos ? b.size () : le_b) - (ls < b.size () ? ls : b.size ())).c_str ());
}

// ---------------------------------------------------------------- mode A: item vocabulary through the API
struct Built {
  std::vector<std::string> data_names;  // named data/bss items whose loaded bytes are compared
  std::set<std::string> labels;         // feature labels
};

template <class K> static MIR_str_t gen_bytes (CS &cs, K &keep, bool nul_terminated) {
  if (!g_c11 && known_excluded ("F30")) nul_terminated = true; /* known finding: the scanner appends a NUL to every string */
  size_t n = cs.range (0, 12);
  std::string s;
  for (size_t i = 0; i < n; i++) {
    int k = cs.weighted ({4, 2, 2, 1});
    if (k == 0) s.push_back ((char) cs.range (32, 126));
    else if (k == 1) { static const char sp[] = {'"', '\\', '\n', '\t', 0, '7', '0', '\v', '\a', '\b', '\f', '\r'}; s.push_back (sp[cs.range (0, 11)]); }
    else if (k == 2) s.push_back ((char) cs.range (128, 255));
    else s.push_back ((char) cs.byte ());
  }
  if (nul_terminated) s.push_back (0);
  keep.push_back (s);
  MIR_str_t r = {keep.back ().size (), keep.back ().data ()};
  return r;
}

static void build_items_module (MIR_context_t ctx, CS &cs, Built &b) {
  std::deque<std::string> keep_d;
  struct KeepRef { std::deque<std::string> &d; void push_back (const std::string &x) { d.push_back (x); } std::string &back () { return d.back (); } } keep{keep_d};
  MIR_new_module (ctx, "mitems");
  std::vector<MIR_item_t> named;  // items a ref may point to
  int nitems = (int) cs.range (3, 22);
  int uid = 0;
  MIR_item_t imp = MIR_new_import (ctx, "ext_thing");
  named.push_back (imp);
  for (int it = 0; it < nitems; it++) {
    int k = cs.weightedv ({6, 3, 2, 3, 2, 2, 3, 4, 2});
    bool anon = cs.chance (90) && it > 0;
    keep.push_back (strfmt ("it%d", uid++));
    const char *name = anon ? NULL : keep.back ().c_str ();
    switch (k) {
    case 0: {  // data of every element type
      static const MIR_type_t ts[] = {MIR_T_I8, MIR_T_U8, MIR_T_I16, MIR_T_U16, MIR_T_I32, MIR_T_U32, MIR_T_I64, MIR_T_U64, MIR_T_F, MIR_T_D, MIR_T_LD, MIR_T_P};
      MIR_type_t t = ts[cs.range (0, known_excluded ("F12") ? 10 : 11)];
      size_t nel = cs.range (1, 6);
      union { int64_t i[8]; float f[8]; double d[8]; long double ld[8]; uint8_t b[128]; } u;
      memset (&u, 0, sizeof (u));
      for (size_t e = 0; e < nel; e++) switch (t) {
        case MIR_T_F: u.f[e] = pick_f (cs, !g_c11); break;
        case MIR_T_D: u.d[e] = pick_d (cs, !g_c11); break;
        case MIR_T_LD: u.ld[e] = pick_ld (cs, !g_c11); break;
        case MIR_T_I8: case MIR_T_U8: u.b[e] = (uint8_t) pick_int (cs); break;
        case MIR_T_I16: case MIR_T_U16: ((int16_t *) u.b)[e] = (int16_t) pick_int (cs); break;
        case MIR_T_I32: case MIR_T_U32: ((int32_t *) u.b)[e] = (int32_t) pick_int (cs); break;
        default: u.i[e] = pick_int (cs); break;
        }
      MIR_item_t d = MIR_new_data (ctx, name, t, nel, &u);
      if (name) named.push_back (d), b.data_names.push_back (name);
      b.labels.insert (std::string ("data:") + type_name (t));
      break;
    }
    case 1: {
      MIR_str_t s = gen_bytes (cs, keep, cs.flip ());
      if (s.len == 0) { s.len = 1; s.s = ""; }
      MIR_item_t d = MIR_new_string_data (ctx, name, s);
      if (name) named.push_back (d), b.data_names.push_back (name);
      b.labels.insert ("string_data");
      break;
    }
    case 2: {
      MIR_item_t d = MIR_new_bss (ctx, name, cs.range (0, 100));
      if (name) named.push_back (d), b.data_names.push_back (name);
      b.labels.insert ("bss");
      break;
    }
    case 3: {
      MIR_item_t tgt = named[cs.range (0, named.size () - 1)];
      MIR_new_ref_data (ctx, name, tgt, cs.chance (128) ? 0 : pick_int (cs));
      b.labels.insert ("ref");
      break;
    }
    case 4: {  // expr: a function without args / memory / calls, then the expr item
      keep.push_back (strfmt ("ex%d", uid++));
      static const MIR_type_t rts[] = {MIR_T_I64, MIR_T_I32, MIR_T_U8, MIR_T_D, MIR_T_F, MIR_T_I16, MIR_T_LD};
      MIR_type_t rt = rts[cs.range (0, 6)];
      const char *fname = keep.back ().c_str ();
      MIR_item_t fi = MIR_new_func (ctx, fname, 1, &rt, 0);
      MIR_func_t f = fi->u.func;
      if (rt == MIR_T_D) {
        MIR_reg_t r = MIR_new_func_reg (ctx, f, MIR_T_D, "v");
        MIR_append_insn (ctx, fi, MIR_new_insn (ctx, MIR_DMUL, MIR_new_reg_op (ctx, r), MIR_new_double_op (ctx, pick_d (cs, true)), MIR_new_double_op (ctx, 0.5)));
        MIR_append_insn (ctx, fi, MIR_new_ret_insn (ctx, 1, MIR_new_reg_op (ctx, r)));
      } else if (rt == MIR_T_F) {
        MIR_append_insn (ctx, fi, MIR_new_ret_insn (ctx, 1, MIR_new_float_op (ctx, pick_f (cs, true))));
      } else if (rt == MIR_T_LD) {
        MIR_append_insn (ctx, fi, MIR_new_ret_insn (ctx, 1, MIR_new_ldouble_op (ctx, pick_ld (cs, true))));
      } else {
        MIR_reg_t r = MIR_new_func_reg (ctx, f, MIR_T_I64, "v");
        MIR_append_insn (ctx, fi, MIR_new_insn (ctx, MIR_ADD, MIR_new_reg_op (ctx, r), MIR_new_int_op (ctx, pick_int (cs)), MIR_new_int_op (ctx, pick_int (cs))));
        MIR_append_insn (ctx, fi, MIR_new_ret_insn (ctx, 1, MIR_new_reg_op (ctx, r)));
      }
      MIR_finish_func (ctx);
      if (!known_excluded ("F1")) {
        MIR_item_t d = MIR_new_expr_data (ctx, name, fi);
        if (name) named.push_back (d), b.data_names.push_back (name);
        b.labels.insert ("expr");
      }
      break;
    }
    case 5: {  // prototype with every argument kind
      keep.push_back (strfmt ("pr%d", uid++));
      const char *pname = keep.back ().c_str ();
      MIR_var_t vars[8];
      int na = (int) cs.range (0, 6);
      static const MIR_type_t ats[] = {MIR_T_I64, MIR_T_I8, MIR_T_U16, MIR_T_I32, MIR_T_U64, MIR_T_F, MIR_T_D, MIR_T_LD, MIR_T_P, MIR_T_BLK, (MIR_type_t) (MIR_T_BLK + 1),
                                       (MIR_type_t) (MIR_T_BLK + 2), (MIR_type_t) (MIR_T_BLK + 3), (MIR_type_t) (MIR_T_BLK + 4), MIR_T_RBLK};
      for (int a = 0; a < na; a++) {
        vars[a].type = ats[cs.range (0, 14)];
        keep.push_back (strfmt ("a%d", a));
        vars[a].name = keep.back ().c_str ();
        vars[a].size = MIR_all_blk_type_p (vars[a].type) ? cs.range (1, 64) : 0;
        if (MIR_all_blk_type_p (vars[a].type)) b.labels.insert (vars[a].type == MIR_T_RBLK ? "rblk_arg" : "blk_arg");
      }
      static const MIR_type_t rts[] = {MIR_T_I64, MIR_T_D, MIR_T_F, MIR_T_LD, MIR_T_I32, MIR_T_U8};
      MIR_type_t res[2];
      int nr = (int) cs.range (0, 2);
      for (int r = 0; r < nr; r++) res[r] = rts[cs.range (0, 5)];
      if (nr == 2 && MIR_int_type_p (res[0]) == MIR_int_type_p (res[1]) && res[0] != res[1] && !MIR_int_type_p (res[0])) res[1] = res[0];
      if (cs.chance (70)) {
        MIR_new_vararg_proto_arr (ctx, pname, nr, res, na, vars);
        b.labels.insert ("vararg_proto");
      } else
        MIR_new_proto_arr (ctx, pname, nr, res, na, vars);
      b.labels.insert ("proto");
      break;
    }
    case 6: {
      keep.push_back (strfmt ("sym%d", uid++));
      int w = (int) cs.range (0, 2);
      if (w == 0) MIR_new_import (ctx, keep.back ().c_str ());
      else if (w == 1) MIR_new_forward (ctx, "fsyn0"), b.labels.insert ("forward");
      else MIR_new_export (ctx, "fsyn0"), b.labels.insert ("export");
      break;
    }
    case 7: {  // function with a wide operand vocabulary (syntax only) and lref items on its labels
      keep.push_back (strfmt ("fsyn%d", uid++));
      const char *fname = keep.back ().c_str ();
      MIR_var_t av[3] = {{MIR_T_I64, "x", 0}, {MIR_T_P, "p", 0}, {(MIR_type_t) (MIR_T_BLK + (int) cs.range (0, 4)), "bk", cs.range (8, 48)}};
      MIR_type_t rt = MIR_T_I64;
      int nargs = cs.flip () ? 3 : 2;
      MIR_item_t fi = cs.chance (60) ? MIR_new_vararg_func_arr (ctx, fname, 1, &rt, nargs, av) : MIR_new_func_arr (ctx, fname, 1, &rt, nargs, av);
      if (nargs == 3) b.labels.insert ("blk_param");
      MIR_func_t f = fi->u.func;
      MIR_reg_t ri = MIR_new_func_reg (ctx, f, MIR_T_I64, "ri"), rd = MIR_new_func_reg (ctx, f, MIR_T_D, "rd"), rf = MIR_new_func_reg (ctx, f, MIR_T_F, "rf"),
                rl = MIR_new_func_reg (ctx, f, MIR_T_LD, "rl");
      MIR_reg_t x = MIR_reg (ctx, "x", f), p = MIR_reg (ctx, "p", f);
      if (cs.chance (60)) {
        static const char *hrs[] = {"rbx", "r12", "r13", "r14", "r15"};
        MIR_new_global_func_reg (ctx, f, MIR_T_I64, "gv", hrs[cs.range (0, 4)]);
        b.labels.insert ("hard_reg_global");
      }
      MIR_label_t l1 = MIR_new_label (ctx), l2 = MIR_new_label (ctx);
      bool reversed = cs.chance (60);  // labels created out of textual order
      if (reversed) std::swap (l1, l2), b.labels.insert ("labels_out_of_order");
      auto A = [&] (MIR_insn_t i) { MIR_append_insn (ctx, fi, i); };
      A (MIR_new_insn (ctx, MIR_MOV, MIR_new_reg_op (ctx, ri), MIR_new_int_op (ctx, pick_int (cs))));
      {
        uint64_t uv = (uint64_t) pick_int (cs);
        if (!g_c11 && known_excluded ("F29")) uv &= 0x7fffffffffffffffull; /* known finding: printed unsigned, re-read as negative INT */
        A (MIR_new_insn (ctx, MIR_MOV, MIR_new_reg_op (ctx, ri), MIR_new_uint_op (ctx, uv)));
      }
      A (l1);
      A (MIR_new_insn (ctx, MIR_DMOV, MIR_new_reg_op (ctx, rd), MIR_new_double_op (ctx, pick_d (cs, !g_c11))));
      A (MIR_new_insn (ctx, MIR_FMOV, MIR_new_reg_op (ctx, rf), MIR_new_float_op (ctx, pick_f (cs, !g_c11))));
      A (MIR_new_insn (ctx, MIR_LDMOV, MIR_new_reg_op (ctx, rl), MIR_new_ldouble_op (ctx, pick_ld (cs, !g_c11))));
      int nm = (int) cs.range (1, 5);
      for (int m = 0; m < nm; m++) {
        static const MIR_type_t mts[] = {MIR_T_I8, MIR_T_U8, MIR_T_I16, MIR_T_U16, MIR_T_I32, MIR_T_U32, MIR_T_I64, MIR_T_U64, MIR_T_P};
        MIR_type_t mt = mts[cs.range (0, 8)];
        MIR_disp_t disp = cs.chance (100) ? 0 : pick_int (cs);
        MIR_reg_t base = cs.chance (200) ? p : 0, index = cs.chance (100) ? x : 0;
        int scale = 1 << cs.range (0, 3);
        if (index == 0) scale = 1;
        if (base == 0 && index == 0 && disp == 0) disp = 4096; /* [0] with neither register nor displacement is not a usable operand */
        MIR_op_t mo;
        int al = (int) cs.range (0, 3);
        if (al == 0) mo = MIR_new_mem_op (ctx, mt, disp, base, index, (MIR_scale_t) scale);
        else {
          mo = MIR_new_alias_mem_op (ctx, mt, disp, base, index, (MIR_scale_t) scale, (al & 1) ? MIR_alias (ctx, "alias_a") : 0,
                                     (al & 2) ? MIR_alias (ctx, "n_b") : 0);
          b.labels.insert ("alias");
        }
        if (cs.flip ()) A (MIR_new_insn (ctx, MIR_MOV, MIR_new_reg_op (ctx, ri), mo));
        else A (MIR_new_insn (ctx, MIR_MOV, mo, MIR_new_reg_op (ctx, ri)));
      }
      {
        MIR_str_t s = gen_bytes (cs, keep, cs.flip ());
        A (MIR_new_insn (ctx, MIR_MOV, MIR_new_reg_op (ctx, ri), MIR_new_str_op (ctx, s)));
        b.labels.insert ("string_operand");
      }
      A (MIR_new_insn (ctx, MIR_MOV, MIR_new_reg_op (ctx, ri), MIR_new_ref_op (ctx, named[cs.range (0, named.size () - 1)])));
      A (MIR_new_insn (ctx, MIR_BLT, MIR_new_label_op (ctx, l1), MIR_new_reg_op (ctx, ri), MIR_new_int_op (ctx, 3)));
      A (l2);
      A (MIR_new_insn (ctx, MIR_LADDR, MIR_new_reg_op (ctx, ri), MIR_new_label_op (ctx, l2)));
      A (MIR_new_ret_insn (ctx, 1, MIR_new_reg_op (ctx, ri)));
      MIR_finish_func (ctx);
      named.push_back (fi);
      if (!known_excluded ("F2") || !g_c11) {
        int nl = (int) cs.range (0, 2);
        for (int q = 0; q < nl; q++) {
          keep.push_back (strfmt ("lr%d", uid++));
          MIR_new_lref_data (ctx, cs.flip () ? keep.back ().c_str () : NULL, l1, cs.flip () ? l2 : NULL, cs.chance (128) ? 0 : (int64_t) cs.range (0, 100) - 50);
          b.labels.insert ("lref");
        }
      }
      b.labels.insert ("func");
      break;
    }
    default: {  // long string tables / many strings (2-byte string indexes in the binary format)
      if (!g_c11) break;
      if (cs.flip ()) {  // high-entropy payload: long literal runs in the compression layer
        size_t n = cs.range (2000, 9000);
        uint32_t lcg = cs.u32 () | 1;
        std::string blob;
        for (size_t q = 0; q < n; q++) {
          lcg = lcg * 1664525u + 1013904223u;
          blob.push_back ((char) (lcg >> 24));
        }
        keep.push_back (blob);
        MIR_str_t bs = {keep.back ().size (), keep.back ().data ()};
        MIR_new_string_data (ctx, name, bs);
        if (name) b.data_names.push_back (name);
        b.labels.insert ("incompressible_blob");
        break;
      }
      int n = (int) cs.range (100, 300);
      for (int q = 0; q < n; q++) {
        keep.push_back (strfmt ("imp_%d_%d", it, q));
        MIR_new_import (ctx, keep.back ().c_str ());
      }
      b.labels.insert ("many_strings");
      break;
    }
    }
  }
  MIR_finish_module (ctx);
}

// bytes of every named data/bss/expr item after load + link (addresses differ per context, contents must not)
static std::string loaded_bytes (MIR_context_t ctx, const std::vector<std::string> &names) {
  std::string r;
  for (MIR_module_t m = DLIST_HEAD (MIR_module_t, *MIR_get_module_list (ctx)); m != NULL; m = DLIST_NEXT (MIR_module_t, m))
    for (MIR_item_t it = DLIST_HEAD (MIR_item_t, m->items); it != NULL; it = DLIST_NEXT (MIR_item_t, it)) {
      size_t n = 0;
      if (it->item_type == MIR_data_item) n = it->u.data->nel * _MIR_type_size (ctx, it->u.data->el_type);
      else if (it->item_type == MIR_bss_item) n = it->u.bss->len;
      else if (it->item_type == MIR_expr_data_item) n = _MIR_type_size (ctx, it->u.expr_data->expr_item->u.func->res_types[0]);
      else continue;
      if (it->item_type == MIR_data_item && it->u.data->el_type == MIR_T_LD) {
        for (size_t e = 0; e < it->u.data->nel; e++) r += hexs ((uint8_t *) it->addr + 16 * e, 10) + " ";
      } else
        r += hexs (it->addr, n);
      r += ";";
    }
  (void) names;
  return r;
}

static int64_t g_dummy_ext[8];
static void *any_resolver (const char *) { return g_dummy_ext; }

static void load_and_link (MIR_context_t ctx) {
  for (MIR_module_t m = DLIST_HEAD (MIR_module_t, *MIR_get_module_list (ctx)); m != NULL; m = DLIST_NEXT (MIR_module_t, m))
    MIR_load_module (ctx, m);
  MIR_link (ctx, MIR_set_interp_interface, any_resolver);
}

// bit-exact comparison of every immediate and data payload of two contexts (C11)
static std::string compare_structures (MIR_context_t a, MIR_context_t b) {
  MIR_module_t ma = DLIST_HEAD (MIR_module_t, *MIR_get_module_list (a)), mb = DLIST_HEAD (MIR_module_t, *MIR_get_module_list (b));
  for (; ma != NULL && mb != NULL; ma = DLIST_NEXT (MIR_module_t, ma), mb = DLIST_NEXT (MIR_module_t, mb)) {
    MIR_item_t ia = DLIST_HEAD (MIR_item_t, ma->items), ib = DLIST_HEAD (MIR_item_t, mb->items);
    for (; ia != NULL && ib != NULL; ia = DLIST_NEXT (MIR_item_t, ia), ib = DLIST_NEXT (MIR_item_t, ib)) {
      if (ia->item_type != ib->item_type) return strfmt ("item kinds differ (%d vs %d)", ia->item_type, ib->item_type);
      if (ia->item_type == MIR_data_item) {
        MIR_data_t da = ia->u.data, db = ib->u.data;
        if (da->el_type != db->el_type || da->nel != db->nel) return "data item type/length differs";
        size_t es = _MIR_type_size (a, da->el_type);
        for (size_t e = 0; e < da->nel; e++)
          if (memcmp (da->u.els + e * es, db->u.els + e * es, da->el_type == MIR_T_LD ? 10 : es) != 0)
            return strfmt ("data item %s element %zu: %s vs %s", da->name ? da->name : "<anon>", e, hexs (da->u.els + e * es, es).c_str (),
                           hexs (db->u.els + e * es, es).c_str ());
      } else if (ia->item_type == MIR_ref_data_item) {
        if (ia->u.ref_data->disp != ib->u.ref_data->disp) return "ref displacement differs";
      } else if (ia->item_type == MIR_lref_data_item) {
        if (ia->u.lref_data->disp != ib->u.lref_data->disp) return "lref displacement differs";
        if ((ia->u.lref_data->label2 == NULL) != (ib->u.lref_data->label2 == NULL)) return "lref second label presence differs";
      } else if (ia->item_type == MIR_bss_item) {
        if (ia->u.bss->len != ib->u.bss->len) return "bss length differs";
      } else if (ia->item_type == MIR_func_item) {
        MIR_insn_t na = DLIST_HEAD (MIR_insn_t, ia->u.func->insns), nb = DLIST_HEAD (MIR_insn_t, ib->u.func->insns);
        for (; na != NULL && nb != NULL; na = DLIST_NEXT (MIR_insn_t, na), nb = DLIST_NEXT (MIR_insn_t, nb)) {
          if (na->code != nb->code || na->nops != nb->nops) return strfmt ("func %s: insn code/arity differs", ia->u.func->name);
          for (unsigned k = 0; k < na->nops; k++) {
            MIR_op_t *oa = &na->ops[k], *ob = &nb->ops[k];
            if (oa->mode != ob->mode) return strfmt ("func %s: operand mode differs (%d vs %d) in %s", ia->u.func->name, oa->mode, ob->mode, MIR_insn_name (a, na->code));
            switch (oa->mode) {
            case MIR_OP_INT: case MIR_OP_UINT:
              if (oa->u.u != ob->u.u) return strfmt ("func %s: integer immediate %lx vs %lx", ia->u.func->name, (unsigned long) oa->u.u, (unsigned long) ob->u.u);
              break;
            case MIR_OP_FLOAT: if (memcmp (&oa->u.f, &ob->u.f, 4)) return strfmt ("func %s: float immediate bits %s vs %s", ia->u.func->name, hexs (&oa->u.f, 4).c_str (), hexs (&ob->u.f, 4).c_str ()); break;
            case MIR_OP_DOUBLE: if (memcmp (&oa->u.d, &ob->u.d, 8)) return strfmt ("func %s: double immediate bits %s vs %s", ia->u.func->name, hexs (&oa->u.d, 8).c_str (), hexs (&ob->u.d, 8).c_str ()); break;
            case MIR_OP_LDOUBLE: if (memcmp (&oa->u.ld, &ob->u.ld, 10)) return strfmt ("func %s: long double immediate bits %s vs %s", ia->u.func->name, hexs (&oa->u.ld, 10).c_str (), hexs (&ob->u.ld, 10).c_str ()); break;
            case MIR_OP_STR:
              if (oa->u.str.len != ob->u.str.len || memcmp (oa->u.str.s, ob->u.str.s, oa->u.str.len)) return strfmt ("func %s: string operand differs", ia->u.func->name);
              break;
            case MIR_OP_MEM:
              if (oa->u.mem.type != ob->u.mem.type || oa->u.mem.disp != ob->u.mem.disp || (oa->u.mem.index != 0 && oa->u.mem.scale != ob->u.mem.scale)
                  || (oa->u.mem.index != 0) != (ob->u.mem.index != 0) || (oa->u.mem.base != 0) != (ob->u.mem.base != 0)
                  || (oa->u.mem.alias != 0) != (ob->u.mem.alias != 0) || (oa->u.mem.nonalias != 0) != (ob->u.mem.nonalias != 0))
                return strfmt ("func %s: memory operand differs", ia->u.func->name);
              break;
            default: break;
            }
          }
        }
        if (na != NULL || nb != NULL) return strfmt ("func %s: number of insns differs", ia->u.func->name);
      }
    }
    if (ia != NULL || ib != NULL) return "number of items differs";
  }
  if (ma != NULL || mb != NULL) return "number of modules differs";
  return "";
}

static void fail_lib (Outcome &o, const char *stage) {
  o.fail (P () + ":liberror:" + stage, strfmt ("error callback during %s: code %d: %s", stage, g_err_code, g_err_msg));
}

// the round trip proper on a context that already holds the original module(s); returns text T1
static void round_trip (MIR_context_t ctx1, Outcome &o, bool ordered_labels, std::string &t_final, MIR_context_t *ctx2_out) {
  o.sample += "[stage: output of original]\n";
  o.publish ();
  std::string T1 = out_text (ctx1);
  o.sample += T1;
  MIR_context_t ctx2 = MIR_init ();
  *ctx2_out = ctx2;
  if (!g_c11) {
    if (setjmp (g_err_jb)) return fail_lib (o, "scan of MIR_output text");
    MIR_set_error_func (ctx2, err_func);
    o.sample += "[stage: scan T1]\n";
    o.publish ();
    MIR_scan_string (ctx2, T1.c_str ());
    std::string T2 = out_text (ctx2);
    MIR_context_t ctx3 = MIR_init ();
    if (setjmp (g_err_jb)) return fail_lib (o, "scan of re-output text");
    MIR_set_error_func (ctx3, err_func);
    o.sample += "[stage: scan T2]\n";
    o.publish ();
    MIR_scan_string (ctx3, T2.c_str ());
    std::string T3 = out_text (ctx3);
    if (T2 != T3) return o.fail ("C10:text-not-stable", "output(scan(T2)) != T2 " + first_diff (T2, T3));
    if (normalise_labels (T1) != normalise_labels (T2))
      return o.fail ("C10:text-differs", "output(scan(T1)) differs from T1 " + first_diff (normalise_labels (T1), normalise_labels (T2)));
    if (ordered_labels && T1 != T2) o.label ("T1_T2_differ_only_in_label_numbers");
    t_final = T2;
  } else {
    bool via_file = (o.hash & 1) != 0;
    o.sample += "[stage: write]\n";
    o.publish ();
    if (setjmp (g_err_jb)) return fail_lib (o, "MIR_write");
    MIR_set_error_func (ctx1, err_func);
    std::vector<uint8_t> B1 = write_bin (ctx1, via_file);
    std::vector<uint8_t> B1b = write_bin (ctx1, !via_file);
    if (B1 != B1b) return o.fail ("C11:write-not-deterministic", strfmt ("two writes of the same modules differ (%zu vs %zu bytes; file vs callback)", B1.size (), B1b.size ()));
    if (B1.size () > (1u << 18)) o.label ("multi_compression_buffer");
    if (setjmp (g_err_jb)) return fail_lib (o, "MIR_read");
    MIR_set_error_func (ctx2, err_func);
    o.sample += "[stage: read]\n";
    o.publish ();
    read_bin (ctx2, B1, via_file);
    std::string T2 = out_text (ctx2);
    if (normalise_labels (T1) != normalise_labels (T2))
      return o.fail ("C11:text-differs", "text of the re-read modules differs " + first_diff (normalise_labels (T1), normalise_labels (T2)));
    std::string d = compare_structures (ctx1, ctx2);
    if (!d.empty ()) return o.fail ("C11:bits-differ", d);
    if (setjmp (g_err_jb)) return fail_lib (o, "MIR_write of re-read modules");
    std::vector<uint8_t> B2 = write_bin (ctx2, via_file);
    if (B2 != B1) o.label ("rewrite_bytes_differ");  // not required by the property: counted only
    t_final = T2;
  }
}

static void case_fn (CS &cs, Outcome &o) {
  int mode = cs.weighted ({3, 2});
  if (mode == 0) {
    MIR_context_t ctx1 = MIR_init (), ctx2 = NULL;
    Built b;
    if (setjmp (g_err_jb)) return o.disc (std::string ("generator built something the API rejects: ") + g_err_msg);
    MIR_set_error_func (ctx1, err_func);
    size_t start = cs.used ();
    build_items_module (ctx1, cs, b);
    o.hash = fnv1a (cs.p + start, cs.used () - start);
    for (auto &l : b.labels) o.label (l);
    o.label ("api_built_items");
    o.nontrivial = b.labels.count ("expr") || b.labels.count ("lref") || b.labels.count ("ref") || b.labels.count ("string_data")
                   || b.labels.count ("hard_reg_global") || b.labels.count ("blk_arg") || b.labels.count ("alias");
    std::string t2;
    round_trip (ctx1, o, !b.labels.count ("labels_out_of_order"), t2, &ctx2);
    if (o.v == V_FAIL) return;
    // both modules must load, link and hold the same data bytes
    o.sample += "[stage: load+link original]\n";
    o.publish ();
    if (setjmp (g_err_jb)) return fail_lib (o, "load/link of the original module");
    MIR_set_error_func (ctx1, err_func);
    load_and_link (ctx1);
    std::string l1 = loaded_bytes (ctx1, b.data_names);
    o.sample += "[stage: load+link re-read]\n";
    o.publish ();
    if (setjmp (g_err_jb)) return fail_lib (o, "load/link of the re-read module");
    MIR_set_error_func (ctx2, err_func);
    load_and_link (ctx2);
    std::string l2 = loaded_bytes (ctx2, b.data_names);
    if (l1 != l2) return o.fail (P () + ":loaded-data-differs", "bytes of loaded data items differ " + first_diff (l1, l2));
    return;
  }
  // mode B: executable program from the generator, read from text
  GenCfg base;
  base.max_funcs = 2;
  base.max_blocks = 5;
  base.jmpi = !known_excluded ("F17");
  Case c;
  if (!make_case (cs, base, c, o)) return;
  label_features (c, o);
  o.label ("generated_program");
  std::string prog_sample = o.sample;
  MIR_context_t ctx1 = MIR_init (), ctx2 = NULL;
  if (setjmp (g_err_jb)) return fail_lib (o, "scan of generated text");
  MIR_set_error_func (ctx1, err_func);
  MIR_scan_string (ctx1, c.text.c_str ());
  std::string t2;
  o.sample = "";
  round_trip (ctx1, o, true, t2, &ctx2);
  if (o.v == V_FAIL) {
    o.sample = prog_sample + o.sample;
    return;
  }
  // execution of the round-tripped module(s) must equal the reference
  std::vector<int> entry_res;
  for (auto &m : c.prog.mods)
    for (auto &f : m.funcs)
      if (f.name == "entry") entry_res = f.res;
  for (Engine e : {E_INTERP, E_GEN1}) {
    std::vector<Obs> got;
    std::string err;
    o.sample = prog_sample + strfmt ("[executing round-tripped module with %s]\n", engine_names[e]);
    o.publish ();
    if (!g_c11) err = run_engine (t2, e, c.inputs, got, entry_res);
    else {
      // binary: written from a fresh scan; a second, separately produced binary (own context, so label and
      // string numbers start again) is read into the same context first, then both are re-written as one stream
      MIR_context_t w = MIR_init ();
      MIR_scan_string (w, c.text.c_str ());
      std::vector<uint8_t> B = write_bin (w, false);
      MIR_context_t w2 = MIR_init ();
      MIR_scan_string (w2, "other:\tmodule\n\texport\tother_f\nother_f:\tfunc\ti64, i64:n\n\tlocal\ti64:s\n\tmov\ts, 0\noL1:\n\tadd\ts, s, n\n\tsub\tn, n, 1\n\tbgt\toL1, n, 0\noL2:\n\tbeq\toL3, s, 77\n\tadd\ts, s, 1\noL3:\n\tret\ts\n\tendfunc\n\tendmodule\n");
      std::vector<uint8_t> B2 = write_bin (w2, false);
      MIR_context_t m = MIR_init ();
      read_bin (m, B2, false);
      read_bin (m, B, false);
      std::vector<uint8_t> BM = write_bin (m, false);
      o.label ("merged_binaries");
      err = run_engine_l ([&] (MIR_context_t cx) { read_bin (cx, BM, false); }, e, c.inputs, got, entry_res);
    }
    if (!err.empty ()) return o.fail (P () + ":roundtripped-module-fails", std::string (engine_names[e]) + ": " + err);
    for (size_t i = 0; i < c.inputs.size (); i++) {
      std::string d = compare_obs (c.ref[i], got[i]);
      if (!d.empty ()) return o.fail (P () + ":execution-differs", std::string (engine_names[e]) + strfmt (": input %zu: ", i) + d);
    }
  }
  o.sample = prog_sample;
}

int main (int argc, char **argv) {
  for (int i = 1; i + 1 < argc; i++)
    if (!strcmp (argv[i], "--opt") && !strcmp (argv[i + 1], "prop=C11")) g_c11 = true;
  HarnessCfg cfg = {};
  cfg.property = g_c11 ? "C11" : "C10";
  cfg.fn = case_fn;
  cfg.fork_per_case = true;
  cfg.timeout_s = 30;
  cfg.timeout_is_failure = true;  // "the writer terminates normally"
  cfg.len_scale = 20;
  return harness_main (argc, argv, cfg);
}
