// C03 — behaviour is independent of the execution interface chosen at link time.
#include "progdiff.h"
using namespace pd;

static void check_case (const Case &c, Outcome &o) {
  static const Engine engines[] = {E_INTERP, E_INTERP_IF, E_GEN1, E_LAZY, E_LAZYBB};
  std::string bad, first_kind, first_diff, base_sample = o.sample;
  for (Engine e : engines) {
    o.sample = base_sample + "[engine being run: " + engine_names[e] + "]\n";
    o.publish ();
    std::string kind, d = check_engine (c, e, kind);
    if (!d.empty ()) {
      bad += std::string (bad.empty () ? "" : "+") + engine_names[e];
      if (first_diff.empty ()) first_kind = kind, first_diff = std::string (engine_names[e]) + ": " + d;
    }
  }
  o.sample = base_sample;
  if (!bad.empty ()) o.fail ("C03:" + bad + ":" + first_kind, first_diff + "\n(interfaces disagreeing with the reference evaluator: " + bad + ")");
}

static void case_fn (CS &cs, Outcome &o) {
  GenCfg base;
  base.min_funcs = 2;
  base.force_calls = true;
  base.max_funcs = 5;
  base.max_blocks = 5;
  base.multi_module = true;
  base.callbacks = true;
  base.wide_sigs = true;
  base.prologue_alloca = true;
  base.call_weight = cs.flip () ? 8 : 3;  // call-dense programs, or few calls so that allocas / loops come first
  g_min_depth = 1;
  if (known_excluded ("F17")) base.jmpi = false;
  base.const_branches = false;  // constant-foldable branches only matter to the optimizer (C01)
  base.single_switch = false;
  if (const char *v = harness_opt ("cw")) base.call_weight = atoi (v);
  if (const char *v = harness_opt ("mf")) base.min_funcs = atoi (v);
  if (const char *v = harness_opt ("wide")) base.wide_sigs = atoi (v);
  if (const char *v = harness_opt ("md")) g_min_depth = atoi (v);
  g_lazy_level = 1;
  g_check_addr_stability = true;
  Case c;
  if (!make_case (cs, base, c, o)) return;
  label_features (c, o);
  int cross = 0, cb = 0;
  for (auto &m : c.prog.mods)
    for (auto &it : m.items)
      if (it.k == Item::IMPORT) (it.name == "ext_cb" ? cb : cross)++;
  if (c.prog.mods.size () > 1) o.label ("multi_module");
  if (cb) o.label ("callback");
  bool executed_cb = false;
  for (auto &r : c.ref)
    for (auto &l : r.log)
      if (l.name == "ext_cb") executed_cb = true;
  if (executed_cb) o.label ("executed_callback");
  // non-trivial: a cross-module call exists and one of {recursion/indirect/callback/jmpi} was generated and a call executed
  o.nontrivial = c.prog.mods.size () > 1 && cross > 0 && (c.feat.indirect || c.feat.jmpi || executed_cb || c.feat.call);
  if (harness_opt ("reduce")) return reduce_and_report (c, check_case, o);
  o.publish ();
  check_case (c, o);
}

int main (int argc, char **argv) {
  HarnessCfg cfg = {};
  cfg.property = "C03";
  cfg.fn = case_fn;
  cfg.fork_per_case = true;
  cfg.timeout_s = 20;
  cfg.len_scale = 40;
  return harness_main (argc, argv, cfg);
}
