/* C shim around the header-only containers (compiled as C, ASan+UBSan, with and without checking). */
#include <stddef.h>
#include <stdint.h>
#include <stdlib.h>
#include <string.h>
#include "mir-alloc.h"
#include "mir-varr.h"
#include "mir-htab.h"
#include "mir-bitmap.h"
#include "mir-dlist.h"

/* default-style allocator (every block exactly sized so ASan guards each end) */
static void *a_malloc (size_t n, void *u) { (void) u; return malloc (n); }
static void *a_calloc (size_t a, size_t b, void *u) { (void) u; return calloc (a, b); }
static void *a_realloc (void *p, size_t o, size_t n, void *u) { (void) u; (void) o; return realloc (p, n); }
static void a_free (void *p, void *u) { (void) u; free (p); }
static struct MIR_alloc alloc = {a_malloc, a_calloc, a_realloc, a_free, NULL};

/* ------------------------------------------------------------------ HTAB */
typedef struct { int key, val; } kv_t;
DEF_HTAB (kv_t);
static HTAB (kv_t) * tab;
unsigned c19_hash_of_key[64];           /* set by the harness: deliberately colliding hashes */
int c19_freed_keys[4096], c19_freed_vals[4096], c19_nfreed;
static void *const tab_arg = (void *) 0x1234;
int c19_bad_arg;

static htab_hash_t kv_hash (kv_t el, void *arg) {
  if (arg != tab_arg) c19_bad_arg++;
  return c19_hash_of_key[el.key & 63];
}
static int kv_eq (kv_t a, kv_t b, void *arg) {
  if (arg != tab_arg) c19_bad_arg++;
  return a.key == b.key;
}
static void kv_free (kv_t el, void *arg) {
  if (arg != tab_arg) c19_bad_arg++;
  if (c19_nfreed < 4096) {
    c19_freed_keys[c19_nfreed] = el.key;
    c19_freed_vals[c19_nfreed] = el.val;
  }
  c19_nfreed++;
}
void c19_ht_create (unsigned min_size, int with_free) {
  HTAB_CREATE_WITH_FREE_FUNC (kv_t, tab, &alloc, min_size, kv_hash, kv_eq, with_free ? kv_free : NULL, tab_arg);
}
void c19_ht_destroy (void) { HTAB_DESTROY (kv_t, tab); }
void c19_ht_clear (void) { HTAB_CLEAR (kv_t, tab); }
int c19_ht_do (int action, int key, int val, int *rkey, int *rval) {
  kv_t el = {key, val}, res = {-777, -777};
  int r = HTAB_DO (kv_t, tab, el, (enum htab_action) action, res);
  *rkey = res.key;
  *rval = res.val;
  return r;
}
unsigned c19_ht_els_num (void) { return HTAB_ELS_NUM (kv_t, tab); }
static int *fe_keys, *fe_vals, fe_n, fe_max;
static void fe (kv_t el, void *arg) {
  if (arg != (void *) 0x77) c19_bad_arg++;
  if (fe_n < fe_max) {
    fe_keys[fe_n] = el.key;
    fe_vals[fe_n] = el.val;
  }
  fe_n++;
}
int c19_ht_foreach (int *keys, int *vals, int max) {
  fe_keys = keys;
  fe_vals = vals;
  fe_n = 0;
  fe_max = max;
  HTAB_FOREACH_ELEM (kv_t, tab, fe, (void *) 0x77);
  return fe_n;
}

/* ------------------------------------------------------------------ bitmap */
#define NBM 4
static bitmap_t bm[NBM];
void c19_bm_create (int i, size_t init_bits) { bm[i] = init_bits == (size_t) -1 ? bitmap_create (&alloc) : bitmap_create2 (&alloc, init_bits); }
void c19_bm_destroy (int i) { bitmap_destroy (bm[i]); }
enum { B_SET, B_CLEAR, B_SET_RANGE, B_CLEAR_RANGE, B_AND, B_IOR, B_AND_COMPL, B_IOR_AND, B_IOR_AND_COMPL, B_COPY,
       B_CLEAR_ALL, B_EQUAL, B_INTERSECT, B_EMPTY, B_COUNT, B_MIN, B_MAX, B_BIT_P };
long c19_bm_op (int op, int d, int a, int b, int c, size_t nb, size_t len) {
  switch (op) {
  case B_SET: return bitmap_set_bit_p (bm[d], nb);
  case B_CLEAR: return bitmap_clear_bit_p (bm[d], nb);
  case B_SET_RANGE: return bitmap_set_bit_range_p (bm[d], nb, len);
  case B_CLEAR_RANGE: return bitmap_clear_bit_range_p (bm[d], nb, len);
  case B_AND: return bitmap_and (bm[d], bm[a], bm[b]);
  case B_IOR: return bitmap_ior (bm[d], bm[a], bm[b]);
  case B_AND_COMPL: return bitmap_and_compl (bm[d], bm[a], bm[b]);
  case B_IOR_AND: return bitmap_ior_and (bm[d], bm[a], bm[b], bm[c]);
  case B_IOR_AND_COMPL: return bitmap_ior_and_compl (bm[d], bm[a], bm[b], bm[c]);
  case B_COPY: bitmap_copy (bm[d], bm[a]); return 0;
  case B_CLEAR_ALL: bitmap_clear (bm[d]); return 0;
  case B_EQUAL: return bitmap_equal_p (bm[d], bm[a]);
  case B_INTERSECT: return bitmap_intersect_p (bm[d], bm[a]);
  case B_EMPTY: return bitmap_empty_p (bm[d]);
  case B_COUNT: return (long) bitmap_bit_count (bm[d]);
  case B_MIN: return (long) bitmap_bit_min (bm[d]);
  case B_MAX: return (long) bitmap_bit_max (bm[d]);
  case B_BIT_P: return bitmap_bit_p (bm[d], nb);
  }
  return -1;
}
/* iterate with the public iterator; returns count, members into out[] */
int c19_bm_iterate (int d, size_t *out, int max) {
  bitmap_iterator_t it;
  size_t nb;
  int n = 0;
  FOREACH_BITMAP_BIT (it, bm[d], nb) {
    if (n < max) out[n] = nb;
    n++;
    if (n > 100000) break; /* runaway guard: reported by the harness as a mismatch */
  }
  return n;
}

/* ------------------------------------------------------------------ VARR */
typedef int64_t i64;
DEF_VARR (i64);
static VARR (i64) * va;
void c19_va_create (size_t size) { VARR_CREATE (i64, va, &alloc, size); }
void c19_va_destroy (void) { VARR_DESTROY (i64, va); }
enum { V_PUSH, V_POP, V_TRUNC, V_EXPAND, V_TAILOR, V_SET, V_GET, V_LAST, V_LENGTH, V_CAPACITY, V_PUSH_ARR };
int64_t c19_va_op (int op, size_t ix, int64_t v, const int64_t *arr, size_t n) {
  switch (op) {
  case V_PUSH: VARR_PUSH (i64, va, v); return 0;
  case V_POP: return VARR_POP (i64, va);
  case V_TRUNC: VARR_TRUNC (i64, va, ix); return 0;
  case V_EXPAND: return VARR_EXPAND (i64, va, ix);
  case V_TAILOR: VARR_TAILOR (i64, va, ix); return 0;
  case V_SET: VARR_SET (i64, va, ix, v); return 0;
  case V_GET: return VARR_GET (i64, va, ix);
  case V_LAST: return VARR_LAST (i64, va);
  case V_LENGTH: return (int64_t) VARR_LENGTH (i64, va);
  case V_CAPACITY: return (int64_t) VARR_CAPACITY (i64, va);
  case V_PUSH_ARR: VARR_PUSH_ARR (i64, va, arr, n); return 0;
  }
  return -1;
}
const int64_t *c19_va_addr (void) { return VARR_ADDR (i64, va); }
int c19_va_foreach_sum (int64_t *sum) {
  size_t i;
  int64_t el;
  uint64_t s = 0;
  int n = 0;
  VARR_FOREACH_ELEM (i64, va, i, el) {
    s = s * 31 + (uint64_t) el;
    n++;
  }
  *sum = (int64_t) s;
  return n;
}

/* ------------------------------------------------------------------ DLIST */
typedef struct node *node_t;
DEF_DLIST_LINK (node_t);
struct node {
  int id;
  DLIST_LINK (node_t) link;
};
DEF_DLIST (node_t, link);
static DLIST (node_t) list;
static struct node nodes[64];
void c19_dl_init (void) {
  DLIST_INIT (node_t, list);
  for (int i = 0; i < 64; i++) {
    nodes[i].id = i;
    nodes[i].link.prev = nodes[i].link.next = (node_t) 0x1; /* garbage: must be overwritten on insert */
  }
}
enum { D_APPEND, D_PREPEND, D_INSERT_BEFORE, D_INSERT_AFTER, D_REMOVE };
void c19_dl_op (int op, int elem, int other) {
  switch (op) {
  case D_APPEND: DLIST_APPEND (node_t, list, &nodes[elem]); break;
  case D_PREPEND: DLIST_PREPEND (node_t, list, &nodes[elem]); break;
  case D_INSERT_BEFORE: DLIST_INSERT_BEFORE (node_t, list, &nodes[other], &nodes[elem]); break;
  case D_INSERT_AFTER: DLIST_INSERT_AFTER (node_t, list, &nodes[other], &nodes[elem]); break;
  case D_REMOVE: DLIST_REMOVE (node_t, list, &nodes[elem]); break;
  }
}
size_t c19_dl_length (void) { return DLIST_LENGTH (node_t, list); }
int c19_dl_el (int n) {
  node_t e = DLIST_EL (node_t, list, n);
  return e == NULL ? -1 : e->id;
}
/* forward and backward traversal through HEAD/NEXT and TAIL/PREV */
int c19_dl_forward (int *out, int max) {
  int n = 0;
  for (node_t e = DLIST_HEAD (node_t, list); e != NULL && n < max; e = DLIST_NEXT (node_t, e)) out[n++] = e->id;
  return n;
}
int c19_dl_backward (int *out, int max) {
  int n = 0;
  for (node_t e = DLIST_TAIL (node_t, list); e != NULL && n < max; e = DLIST_PREV (node_t, e)) out[n++] = e->id;
  return n;
}
int c19_dl_removed_links_null (int elem) { return nodes[elem].link.prev == NULL && nodes[elem].link.next == NULL; }
