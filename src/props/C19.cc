// C19 — HTAB / bitmap / VARR / DLIST against abstract models (stateful, check after every step).
#include "../common/runner.h"
#include <bitset>
#include <map>
#include <set>
#include <list>
#include <algorithm>
#include <string.h>
#include <stdio.h>

extern "C" {
extern unsigned c19_hash_of_key[64];
extern int c19_freed_keys[4096], c19_freed_vals[4096], c19_nfreed, c19_bad_arg;
void c19_ht_create (unsigned min_size, int with_free);
void c19_ht_destroy (void);
void c19_ht_clear (void);
int c19_ht_do (int action, int key, int val, int *rkey, int *rval);
unsigned c19_ht_els_num (void);
int c19_ht_foreach (int *keys, int *vals, int max);
void c19_bm_create (int i, size_t init_bits);
void c19_bm_destroy (int i);
long c19_bm_op (int op, int d, int a, int b, int c, size_t nb, size_t len);
int c19_bm_iterate (int d, size_t *out, int max);
void c19_va_create (size_t size);
void c19_va_destroy (void);
int64_t c19_va_op (int op, size_t ix, int64_t v, const int64_t *arr, size_t n);
const int64_t *c19_va_addr (void);
int c19_va_foreach_sum (int64_t *sum);
void c19_dl_init (void);
void c19_dl_op (int op, int elem, int other);
size_t c19_dl_length (void);
int c19_dl_el (int n);
int c19_dl_forward (int *out, int max);
int c19_dl_backward (int *out, int max);
int c19_dl_removed_links_null (int elem);
}
enum { HTAB_FIND, HTAB_INSERT, HTAB_REPLACE, HTAB_DELETE, HT_CLEAR, HT_FOREACH };
enum { B_SET, B_CLEAR, B_SET_RANGE, B_CLEAR_RANGE, B_AND, B_IOR, B_AND_COMPL, B_IOR_AND, B_IOR_AND_COMPL, B_COPY,
       B_CLEAR_ALL, B_EQUAL, B_INTERSECT, B_EMPTY, B_COUNT, B_MIN, B_MAX, B_BIT_P };
static const char *bop_names[] = {"set", "clear", "set_range", "clear_range", "and", "ior", "and_compl", "ior_and",
                                  "ior_and_compl", "copy", "clear_all", "equal", "intersect", "empty", "count",
                                  "min", "max", "bit_p"};
enum { V_PUSH, V_POP, V_TRUNC, V_EXPAND, V_TAILOR, V_SET, V_GET, V_LAST, V_LENGTH, V_CAPACITY, V_PUSH_ARR };
enum { D_APPEND, D_PREPEND, D_INSERT_BEFORE, D_INSERT_AFTER, D_REMOVE };

// =========================================================================== HTAB
struct HtOp {
  int act, key, val;
};
static const char *hact[] = {"find", "insert", "replace", "delete", "clear", "foreach"};

static void run_htab (const std::vector<HtOp> &ops, unsigned min_size, bool with_free, int nkeys, Outcome &o,
                      const std::string &hdr) {
  std::string tr = hdr;
  std::map<int, int> model;
  c19_nfreed = 0;
  c19_bad_arg = 0;
  c19_ht_create (min_size, with_free);
  unsigned size = 2;
  while (min_size > size) size *= 2;
  unsigned bound = 0;  // mirror of the element-array fill, only to label "rebuild" cases
  int rebuilds = 0, tomb_at_rebuild = 0, reinserts = 0, tombs = 0;
  std::set<int> deleted_once;
  int step = 0;
  auto failf = [&] (const std::string &what, const std::string &d) {
    o.sample = tr;
    o.fail ("htab:" + what, "step " + std::to_string (step) + ": " + d + "\nhistory: " + tr);
  };
  for (auto &op : ops) {
    step++;
    tr += strfmt (" %s(%d", hact[op.act], op.key);
    if (op.act == HTAB_INSERT || op.act == HTAB_REPLACE) tr += strfmt ("=%d", op.val);
    tr += ")";
    o.sample = tr;
    o.publish ();
    int freed_before = c19_nfreed;
    std::multiset<std::pair<int, int>> exp_freed;
    if (op.act == HT_CLEAR) {
      if (with_free)
        for (auto &kv : model) exp_freed.insert (kv);
      model.clear ();
      c19_ht_clear ();
      bound = 0;
      tombs = 0;
    } else if (op.act == HT_FOREACH) {
      /* checked below for every step anyway */
    } else {
      int rk, rv;
      bool existed = model.count (op.key) != 0;
      int oldv = existed ? model[op.key] : 0;
      if ((op.act == HTAB_INSERT || op.act == HTAB_REPLACE) && bound == size) {  // label only
        rebuilds++;
        if (tombs > 0) tomb_at_rebuild++;
        size *= 2;
        bound = (unsigned) model.size ();
        tombs = 0;
      }
      int r = c19_ht_do (op.act, op.key, op.val, &rk, &rv);
      if ((r != 0) != existed)
        return failf (std::string (hact[op.act]) + ":return",
                      strfmt ("%s(%d) returned %d, model says element %s", hact[op.act], op.key, r,
                              existed ? "exists" : "absent"));
      switch (op.act) {
      case HTAB_FIND:
        if (existed && (rk != op.key || rv != oldv))
          return failf ("find:value", strfmt ("find(%d) gave (%d,%d), model (%d,%d)", op.key, rk, rv, op.key, oldv));
        break;
      case HTAB_INSERT:
        if (existed) {
          if (rk != op.key || rv != oldv)
            return failf ("insert:value", strfmt ("insert of existing key %d gave (%d,%d), model (%d,%d)", op.key, rk,
                                                  rv, op.key, oldv));
        } else {
          if (rk != op.key || rv != op.val) return failf ("insert:result", "result element is not the inserted one");
          model[op.key] = op.val;
          bound++;
          if (deleted_once.count (op.key)) reinserts++;
        }
        break;
      case HTAB_REPLACE:
        if (rk != op.key || rv != op.val) return failf ("replace:result", "result element is not the new one");
        if (existed) {
          if (with_free) exp_freed.insert ({op.key, oldv});
        } else {
          bound++;
          if (deleted_once.count (op.key)) reinserts++;
        }
        model[op.key] = op.val;
        break;
      case HTAB_DELETE:
        if (existed) {
          if (with_free) exp_freed.insert ({op.key, oldv});
          model.erase (op.key);
          deleted_once.insert (op.key);
          tombs++;
        }
        break;
      }
    }
    // free function: exactly the dropped elements, once each
    std::multiset<std::pair<int, int>> got_freed;
    for (int i = freed_before; i < c19_nfreed && i < 4096; i++)
      got_freed.insert ({c19_freed_keys[i], c19_freed_vals[i]});
    if (got_freed != exp_freed || (size_t) (c19_nfreed - freed_before) != exp_freed.size ())
      return failf (std::string (hact[op.act]) + ":free_func",
                    strfmt ("free function called %d times, model expects %zu dropped elements",
                            c19_nfreed - freed_before, exp_freed.size ()));
    if (c19_ht_els_num () != model.size ())
      return failf (std::string (hact[op.act]) + ":els_num",
                    strfmt ("els_num %u, model %zu", c19_ht_els_num (), model.size ()));
    // full contents: every key of the universe through FIND, and foreach
    for (int k = 0; k < nkeys; k++) {
      int rk, rv;
      int r = c19_ht_do (HTAB_FIND, k, 0, &rk, &rv);
      auto it = model.find (k);
      if ((r != 0) != (it != model.end ()) || (r && (rk != k || rv != it->second)))
        return failf (std::string (hact[op.act]) + ":contents",
                      strfmt ("after the step find(%d) gives found=%d (%d,%d); model %s", k, r, rk, rv,
                              it == model.end () ? "absent" : std::to_string (it->second).c_str ()));
    }
    int fk[64], fv[64];
    int n = c19_ht_foreach (fk, fv, 64);
    std::multiset<std::pair<int, int>> a, b;
    for (int i = 0; i < n && i < 64; i++) a.insert ({fk[i], fv[i]});
    for (auto &kv : model) b.insert (kv);
    if (a != b) return failf (std::string (hact[op.act]) + ":foreach", "foreach_elem visits a different multiset");
    if (c19_bad_arg) return failf ("arg", "callback received a wrong arg pointer");
  }
  // destroy frees what is left, once
  int freed_before = c19_nfreed;
  c19_ht_destroy ();
  if (with_free) {
    std::multiset<std::pair<int, int>> got, exp;
    for (int i = freed_before; i < c19_nfreed && i < 4096; i++) got.insert ({c19_freed_keys[i], c19_freed_vals[i]});
    for (auto &kv : model) exp.insert (kv);
    if (got != exp) return failf ("destroy:free_func", "destroy did not free exactly the remaining elements");
  } else if (c19_nfreed != 0)
    return failf ("free_func", "free function called although none was given");
  o.sample = tr;
  if (rebuilds) o.label ("htab_rebuild");
  if (tomb_at_rebuild) o.label ("htab_rebuild_with_tombstone");
  if (reinserts) o.label ("htab_reinsert_deleted");
  o.nontrivial = tomb_at_rebuild > 0 && reinserts > 0;
}

// =========================================================================== bitmap
#define NB 512
typedef std::bitset<NB> BS;
struct BmOp {
  int op, d, a, b, c;
  size_t nb, len;
};

static std::string show_bm_op (const BmOp &p) {
  switch (p.op) {
  case B_SET:
  case B_CLEAR:
  case B_BIT_P: return strfmt (" %s(b%d,%zu)", bop_names[p.op], p.d, p.nb);
  case B_SET_RANGE:
  case B_CLEAR_RANGE: return strfmt (" %s(b%d,%zu,%zu)", bop_names[p.op], p.d, p.nb, p.len);
  case B_AND:
  case B_IOR:
  case B_AND_COMPL: return strfmt (" %s(b%d,b%d,b%d)", bop_names[p.op], p.d, p.a, p.b);
  case B_IOR_AND:
  case B_IOR_AND_COMPL: return strfmt (" %s(b%d,b%d,b%d,b%d)", bop_names[p.op], p.d, p.a, p.b, p.c);
  case B_COPY:
  case B_EQUAL:
  case B_INTERSECT: return strfmt (" %s(b%d,b%d)", bop_names[p.op], p.d, p.a);
  default: return strfmt (" %s(b%d)", bop_names[p.op], p.d);
  }
}

static void run_bitmap (const std::vector<BmOp> &ops, const size_t *init_bits, int nbm, Outcome &o,
                        const std::string &hdr) {
  std::string tr = hdr;
  BS m[4];
  for (int i = 0; i < nbm; i++) c19_bm_create (i, init_bits[i]);
  int step = 0;
  bool lab_alias = false, lab_longer = false, lab_cross = false;
  auto failf = [&] (const std::string &what, const std::string &d) {
    o.sample = tr;
    o.fail ("bitmap:" + what, "step " + std::to_string (step) + ": " + d + "\nhistory: " + tr);
  };
  auto hi = [] (const BS &b) -> int {
    for (int i = NB - 1; i >= 0; i--)
      if (b[i]) return i;
    return -1;
  };
  for (auto &p : ops) {
    step++;
    tr += show_bm_op (p);
    o.sample = tr;
    o.publish ();
    BS before = m[p.d];
    long exp = 0;
    bool check_ret = true;
    switch (p.op) {
    case B_SET: exp = !m[p.d][p.nb]; m[p.d][p.nb] = 1; break;
    case B_CLEAR: exp = m[p.d][p.nb]; m[p.d][p.nb] = 0; break;
    case B_SET_RANGE:
      for (size_t i = p.nb; i < p.nb + p.len; i++) m[p.d][i] = 1;
      exp = m[p.d] != before;
      if (p.nb / 64 != (p.nb + p.len) / 64) lab_cross = true;
      break;
    case B_CLEAR_RANGE:
      for (size_t i = p.nb; i < p.nb + p.len; i++) m[p.d][i] = 0;
      exp = m[p.d] != before;
      if (p.nb / 64 != (p.nb + p.len) / 64) lab_cross = true;
      break;
    case B_AND: { BS r = m[p.a] & m[p.b]; m[p.d] = r; exp = r != before; break; }
    case B_IOR: { BS r = m[p.a] | m[p.b]; m[p.d] = r; exp = r != before; break; }
    case B_AND_COMPL: { BS r = m[p.a] & ~m[p.b]; m[p.d] = r; exp = r != before; break; }
    case B_IOR_AND: { BS r = m[p.a] | (m[p.b] & m[p.c]); m[p.d] = r; exp = r != before; break; }
    case B_IOR_AND_COMPL: { BS r = m[p.a] | (m[p.b] & ~m[p.c]); m[p.d] = r; exp = r != before; break; }
    case B_COPY: m[p.d] = m[p.a]; check_ret = false; break;
    case B_CLEAR_ALL: m[p.d].reset (); check_ret = false; break;
    case B_EQUAL: exp = m[p.d] == m[p.a]; break;
    case B_INTERSECT: exp = (m[p.d] & m[p.a]).any (); break;
    case B_EMPTY: exp = m[p.d].none (); break;
    case B_COUNT: exp = (long) m[p.d].count (); break;
    case B_MIN: exp = 0; for (int i = 0; i < NB; i++) if (m[p.d][i]) { exp = i; break; } break;
    case B_MAX: exp = hi (m[p.d]) < 0 ? 0 : hi (m[p.d]); break;
    case B_BIT_P: exp = m[p.d][p.nb]; break;
    }
    if (p.op >= B_AND && p.op <= B_IOR_AND_COMPL) {
      bool three = p.op >= B_IOR_AND;
      if (p.d == p.a || p.d == p.b || (three && p.d == p.c) || p.a == p.b) lab_alias = true;
      int hs = std::max (hi (p.op == B_AND ? (m[p.a] & m[p.b]) : m[p.a]), -1);
      (void) hs;
      int src_hi = std::max (hi (p.d == p.a ? before : m[p.a]), hi (p.d == p.b ? before : m[p.b]));
      if (three) src_hi = std::max (src_hi, hi (p.d == p.c ? before : m[p.c]));
      if (hi (before) / 64 > (src_hi < 0 ? -1 : src_hi / 64) && hi (before) >= 0) lab_longer = true;
    }
    long got = c19_bm_op (p.op, p.d, p.a, p.b, p.c, p.nb, p.len);
    if (check_ret && (p.op <= B_IOR_AND_COMPL || p.op == B_EQUAL || p.op == B_INTERSECT || p.op == B_EMPTY
                        ? (got != 0) != (exp != 0)
                        : got != exp))
      return failf (std::string (bop_names[p.op]) + ":return",
                    strfmt ("%s returned %ld, model says %ld%s", show_bm_op (p).c_str (), got, exp,
                            p.op <= B_IOR_AND_COMPL ? " (changed flag)" : ""));
    // contents of every bitmap, bit by bit, plus iterator on all
    for (int i = 0; i < nbm; i++) {
      for (size_t nb = 0; nb < NB; nb++)
        if ((c19_bm_op (B_BIT_P, i, 0, 0, 0, nb, 0) != 0) != m[i][nb])
          return failf (std::string (bop_names[p.op]) + ":contents",
                        strfmt ("after %s bit %zu of b%d is %d, model %d", show_bm_op (p).c_str (), nb, i, !m[i][nb],
                                (int) m[i][nb]));
      size_t out[NB + 8];
      int n = c19_bm_iterate (i, out, NB + 8);
      std::vector<size_t> exp_it;
      for (size_t nb = 0; nb < NB; nb++)
        if (m[i][nb]) exp_it.push_back (nb);
      if ((size_t) n != exp_it.size () || !std::equal (exp_it.begin (), exp_it.end (), out))
        return failf (std::string (bop_names[p.op]) + ":iterator",
                      strfmt ("iterator over b%d yields %d members, model %zu (or wrong order)", i, n, exp_it.size ()));
    }
  }
  for (int i = 0; i < nbm; i++) c19_bm_destroy (i);
  o.sample = tr;
  if (lab_alias) o.label ("bitmap_alias");
  if (lab_longer) o.label ("bitmap_dst_longer_than_srcs");
  if (lab_cross) o.label ("bitmap_range_crosses_word");
  o.nontrivial = lab_alias || lab_longer;
}

// small alphabets for the exhaustive part ----------------------------------------------------
static std::vector<BmOp> bm_alphabet () {
  std::vector<BmOp> al;
  static const size_t bits[] = {0, 63, 64, 129};
  for (int d = 0; d < 2; d++)
    for (size_t b : bits) al.push_back ({B_SET, d, 0, 0, 0, b, 0});
  for (int d = 0; d < 2; d++)
    for (size_t b : bits) al.push_back ({B_CLEAR, d, 0, 0, 0, b, 0});
  for (int d = 0; d < 2; d++) {
    al.push_back ({B_CLEAR_RANGE, d, 0, 0, 0, 60, 10});
    al.push_back ({B_SET_RANGE, d, 0, 0, 0, 62, 68});
    al.push_back ({B_CLEAR_ALL, d, 0, 0, 0, 0, 0});
  }
  for (int op = B_AND; op <= B_AND_COMPL; op++)
    for (int d = 0; d < 2; d++)
      for (int a = 0; a < 2; a++)
        for (int b = 0; b < 2; b++) al.push_back ({op, d, a, b, 0, 0, 0});
  for (int op = B_IOR_AND; op <= B_IOR_AND_COMPL; op++)
    for (int d = 0; d < 2; d++)
      for (int a = 0; a < 2; a++)
        for (int b = 0; b < 2; b++)
          for (int c = 0; c < 2; c++) al.push_back ({op, d, a, b, c, 0, 0});
  al.push_back ({B_COPY, 0, 1, 0, 0, 0, 0});
  al.push_back ({B_COPY, 1, 0, 0, 0, 0, 0});
  return al;
}
static std::vector<HtOp> ht_alphabet () {
  std::vector<HtOp> al;
  for (int act = HTAB_FIND; act <= HTAB_DELETE; act++)
    for (int k = 0; k < 3; k++) al.push_back ({act, k, 0});
  al.push_back ({HT_CLEAR, 0, 0});
  return al;
}
static std::vector<BmOp> g_bm_al;
static std::vector<HtOp> g_ht_al;

// =========================================================================== VARR
static void run_varr (CS &cs, Outcome &o) {
  std::vector<int64_t> m;
  size_t init = cs.range (0, 5) == 0 ? 0 : cs.range (1, 70);
  std::string tr = strfmt ("varr create(%zu)", init);
  c19_va_create (init);
  size_t cap = init == 0 ? 64 : init;
  int nops = (int) cs.range (1, 120), step = 0;
  bool grew = false, tailored = false;
  auto failf = [&] (const std::string &what, const std::string &d) {
    o.sample = tr;
    o.fail ("varr:" + what, "step " + std::to_string (step) + ": " + d + "\nhistory: " + tr);
  };
  for (int s = 0; s < nops && !cs.exhausted (); s++) {
    step++;
    o.sample = tr;
    o.publish ();
    int op = cs.weighted ({8, 4, 2, 2, 2, 3, 3, 2, 1, 1, 3});
    switch (op) {
    case V_PUSH: {
      int64_t v = (int64_t) cs.range (0, 1000) - 500;
      tr += strfmt (" push(%ld)", (long) v);
      c19_va_op (V_PUSH, 0, v, 0, 0);
      m.push_back (v);
      break;
    }
    case V_POP:
      if (m.empty ()) continue;
      tr += " pop";
      if (c19_va_op (V_POP, 0, 0, 0, 0) != m.back ()) return failf ("pop", "pop returned a wrong element");
      m.pop_back ();
      break;
    case V_TRUNC: {
      size_t n = cs.range (0, m.size ());
      tr += strfmt (" trunc(%zu)", n);
      c19_va_op (V_TRUNC, n, 0, 0, 0);
      m.resize (n);
      break;
    }
    case V_EXPAND: {
      size_t n = cs.range (0, 300);
      tr += strfmt (" expand(%zu)", n);
      int64_t r = c19_va_op (V_EXPAND, n, 0, 0, 0);
      size_t c2 = (size_t) c19_va_op (V_CAPACITY, 0, 0, 0, 0);
      if ((r != 0) != (cap < n)) return failf ("expand:return", "expand return value does not say whether it grew");
      if (c2 < n) return failf ("expand:capacity", "capacity below the requested size");
      break;
    }
    case V_TAILOR: {
      size_t n = cs.range (1, 200); /* tailor(0) is never used by the library (realloc(p,0)) */
      tr += strfmt (" tailor(%zu)", n);
      c19_va_op (V_TAILOR, n, 0, 0, 0);
      size_t old = m.size ();
      m.resize (n);
      for (size_t i = old; i < n; i++) {  // new slots are unspecified: define them
        m[i] = (int64_t) i * 3;
        c19_va_op (V_SET, i, m[i], 0, 0);
      }
      if ((size_t) c19_va_op (V_CAPACITY, 0, 0, 0, 0) != n) return failf ("tailor:capacity", "capacity != size");
      tailored = true;
      break;
    }
    case V_SET: {
      if (m.empty ()) continue;
      size_t ix = cs.range (0, m.size () - 1);
      int64_t v = (int64_t) cs.u32 ();
      tr += strfmt (" set(%zu,%ld)", ix, (long) v);
      c19_va_op (V_SET, ix, v, 0, 0);
      m[ix] = v;
      break;
    }
    case V_GET: {
      if (m.empty ()) continue;
      size_t ix = cs.range (0, m.size () - 1);
      tr += strfmt (" get(%zu)", ix);
      if (c19_va_op (V_GET, ix, 0, 0, 0) != m[ix]) return failf ("get", "get returned a wrong element");
      break;
    }
    case V_LAST:
      if (m.empty ()) continue;
      tr += " last";
      if (c19_va_op (V_LAST, 0, 0, 0, 0) != m.back ()) return failf ("last", "last returned a wrong element");
      break;
    case V_PUSH_ARR: {
      size_t n = cs.range (0, 100);
      std::vector<int64_t> arr;
      for (size_t i = 0; i < n; i++) arr.push_back ((int64_t) (i * 7 + s));
      tr += strfmt (" push_arr(%zu)", n);
      c19_va_op (V_PUSH_ARR, 0, 0, arr.data (), n);
      m.insert (m.end (), arr.begin (), arr.end ());
      break;
    }
    default: break;
    }
    size_t c2 = (size_t) c19_va_op (V_CAPACITY, 0, 0, 0, 0);
    if (c2 > cap) grew = true;
    cap = c2;
    if ((size_t) c19_va_op (V_LENGTH, 0, 0, 0, 0) != m.size ()) return failf ("length", "length differs from model");
    if (cap < m.size ()) return failf ("capacity", "capacity below length");
    const int64_t *a = c19_va_addr ();
    for (size_t i = 0; i < m.size (); i++)
      if (a[i] != m[i]) return failf ("contents", strfmt ("element %zu differs from model", i));
    int64_t sum;
    uint64_t es = 0;
    int n = c19_va_foreach_sum (&sum);
    for (auto v : m) es = es * 31 + (uint64_t) v;
    if ((size_t) n != m.size () || (uint64_t) sum != es) return failf ("foreach", "VARR_FOREACH_ELEM visits different elements");
  }
  o.sample = tr + " destroy";
  o.publish ();
  c19_va_destroy ();
  if (grew) o.label ("varr_grew");
  if (tailored) o.label ("varr_tailor");
  o.nontrivial = grew && step >= 5;
}

// =========================================================================== DLIST
static void run_dlist (CS &cs, Outcome &o) {
  std::vector<int> m;
  std::set<int> in;
  c19_dl_init ();
  std::string tr = "dlist";
  int nops = (int) cs.range (1, 80), step = 0, nuniverse = (int) cs.range (2, 20);
  bool mid = false, removed_end = false;
  auto failf = [&] (const std::string &what, const std::string &d) {
    o.sample = tr;
    o.fail ("dlist:" + what, "step " + std::to_string (step) + ": " + d + "\nhistory: " + tr);
  };
  for (int s = 0; s < nops && !cs.exhausted (); s++) {
    step++;
    o.sample = tr;
    o.publish ();
    int op = cs.weighted ({3, 3, 3, 3, 4});
    int elem = (int) cs.range (0, nuniverse - 1);
    if (op == D_REMOVE) {
      if (m.empty ()) continue;
      elem = m[cs.range (0, m.size () - 1)];
      tr += strfmt (" remove(%d)", elem);
      if (elem == m.front () || elem == m.back ()) removed_end = true;
      c19_dl_op (D_REMOVE, elem, 0);
      m.erase (std::find (m.begin (), m.end (), elem));
      in.erase (elem);
      if (!c19_dl_removed_links_null (elem)) return failf ("remove:links", "removed element keeps stale links");
    } else {
      if (in.count (elem)) {  // pick a free element
        int e2 = -1;
        for (int k = 0; k < nuniverse; k++)
          if (!in.count ((elem + k) % nuniverse)) {
            e2 = (elem + k) % nuniverse;
            break;
          }
        if (e2 < 0) continue;
        elem = e2;
      }
      if ((op == D_INSERT_BEFORE || op == D_INSERT_AFTER) && m.empty ()) op = D_APPEND;
      if (op == D_APPEND) {
        tr += strfmt (" append(%d)", elem);
        c19_dl_op (op, elem, 0);
        m.push_back (elem);
      } else if (op == D_PREPEND) {
        tr += strfmt (" prepend(%d)", elem);
        c19_dl_op (op, elem, 0);
        m.insert (m.begin (), elem);
      } else {
        size_t pos = cs.range (0, m.size () - 1);
        int other = m[pos];
        tr += strfmt (" %s(%d,%d)", op == D_INSERT_BEFORE ? "insert_before" : "insert_after", other, elem);
        c19_dl_op (op, elem, other);
        m.insert (m.begin () + pos + (op == D_INSERT_AFTER ? 1 : 0), elem);
        if (pos > 0 && pos + 1 < m.size ()) mid = true;
      }
      in.insert (elem);
    }
    int out[80];
    int n = c19_dl_forward (out, 80);
    if ((size_t) n != m.size () || !std::equal (m.begin (), m.end (), out))
      return failf ("forward", "head/next traversal differs from model");
    n = c19_dl_backward (out, 80);
    if ((size_t) n != m.size () || !std::equal (m.rbegin (), m.rend (), out))
      return failf ("backward", "tail/prev traversal differs from model");
    if (c19_dl_length () != m.size ()) return failf ("length", "length differs from model");
    for (int k = -(int) m.size () - 1; k <= (int) m.size (); k++) {
      int exp = -1;
      if (k >= 0 && (size_t) k < m.size ()) exp = m[k];
      if (k < 0 && (size_t) (-k) <= m.size ()) exp = m[m.size () + k];
      if (c19_dl_el (k) != exp) return failf ("el", strfmt ("DLIST_EL(%d) differs from model", k));
    }
  }
  o.sample = tr;
  if (mid) o.label ("dlist_insert_middle");
  if (removed_end) o.label ("dlist_remove_end");
  o.nontrivial = mid && removed_end;
}

// =========================================================================== case decoder
static void case_fn (CS &cs, Outcome &o) {
  int kind = (int) cs.range (0, 5);
  if (kind == 0 || kind == 4) {
    std::vector<HtOp> ops;
    if (kind == 4) {  // small alphabet, fixed colliding hashes: the exhaustive universe
      c19_hash_of_key[0] = 0;
      c19_hash_of_key[1] = 1;
      c19_hash_of_key[2] = 5;
      int step = 0;
      while (!cs.exhausted () && ops.size () < 12) {
        HtOp p = g_ht_al[cs.byte () % g_ht_al.size ()];
        p.val = ++step;
        ops.push_back (p);
      }
      o.label ("htab_small");
      run_htab (ops, 2, true, 3, o, "htab[small h={0,1,5} min=2 free]");
    } else {
      int nkeys = (int) cs.range (1, 16);
      static const unsigned hv[] = {0, 1, 2, 3, 4, 0x800, 0x801, 0x1000, 0xffffffffu, 0x80000000u, 7, 8, 15, 16, 31, 33};
      int nh = (int) cs.range (1, 16);
      std::string hs;
      for (int k = 0; k < nkeys; k++) {
        c19_hash_of_key[k] = hv[cs.range (0, nh - 1)];
        hs += strfmt ("%x,", c19_hash_of_key[k]);
      }
      static const unsigned ms[] = {0, 1, 2, 3, 4, 5, 8, 16, 100};
      unsigned min_size = ms[cs.range (0, 8)];
      bool with_free = !cs.chance (40);
      int nops = (int) cs.range (1, 400);
      for (int s = 0; s < nops && !cs.exhausted (); s++) {
        int act = cs.weighted ({3, 6, 3, 5, 1});
        // bias towards re-inserting a recently deleted key
        int key = (int) cs.range (0, nkeys - 1);
        ops.push_back ({act, key, s + 1});
      }
      o.label ("htab_random");
      run_htab (ops, min_size, with_free, nkeys, o,
                strfmt ("htab[keys=%d hashes=%s min=%u free=%d]", nkeys, hs.c_str (), min_size, with_free));
    }
    o.hash = fnv1a_s (o.sample);
    return;
  }
  if (kind == 1 || kind == 5) {
    std::vector<BmOp> ops;
    size_t init[4] = {(size_t) -1, (size_t) -1, (size_t) -1, (size_t) -1};
    if (kind == 5) {
      while (!cs.exhausted () && ops.size () < 10) ops.push_back (g_bm_al[cs.byte () % g_bm_al.size ()]);
      o.label ("bitmap_small");
      run_bitmap (ops, init, 2, o, "bitmap[small]");
    } else {
      for (int i = 0; i < 4; i++)
        if (cs.chance (60)) init[i] = cs.range (0, 300);
      int nops = (int) cs.range (1, 200);
      static const size_t edge[] = {0, 1, 62, 63, 64, 65, 127, 128, 129, 191, 192, 255, 256, 259};
      for (int s = 0; s < nops && !cs.exhausted (); s++) {
        BmOp p;
        p.op = cs.weightedv ({8, 4, 3, 3, 4, 4, 4, 3, 3, 2, 1, 1, 1, 1, 1, 1, 1, 1});
        p.d = (int) cs.range (0, 3);
        p.a = (int) cs.range (0, 3);
        p.b = (int) cs.range (0, 3);
        p.c = (int) cs.range (0, 3);
        p.nb = cs.chance (128) ? edge[cs.range (0, 13)] : cs.range (0, 259);
        p.len = cs.chance (128) ? cs.range (0, 70) : cs.range (0, 300 - p.nb);
        if (p.nb + p.len > 300) p.len = 300 - p.nb;
        ops.push_back (p);
      }
      o.label ("bitmap_random");
      run_bitmap (ops, init, 4, o, "bitmap");
    }
    o.hash = fnv1a_s (o.sample);
    return;
  }
  if (kind == 2) {
    o.label ("varr");
    run_varr (cs, o);
  } else {
    o.label ("dlist");
    run_dlist (cs, o);
  }
  o.hash = fnv1a_s (o.sample);
}

// exhaustive: all sequences over the small alphabets up to a length bound
static void enumerate (int tier) {
  int shard = 0, nshards = 1;
  if (const char *s = harness_opt ("shard")) sscanf (s, "%d/%d", &shard, &nshards);
  int ht_len = tier ? 6 : 5, bm_len = tier ? 4 : 3;
  if (const char *s = harness_opt ("ht_len")) ht_len = atoi (s);
  if (const char *s = harness_opt ("bm_len")) bm_len = atoi (s);
  uint64_t idx = 0;
  for (int pass = 0; pass < 2; pass++) {
    size_t A = pass == 0 ? g_ht_al.size () : g_bm_al.size ();
    int maxlen = pass == 0 ? ht_len : bm_len;
    for (int len = 1; len <= maxlen; len++) {
      std::vector<uint8_t> b (len + 1, 0);
      b[0] = pass == 0 ? 4 : 5;
      uint64_t total = 1;
      for (int i = 0; i < len; i++) total *= A;
      for (uint64_t code = 0; code < total; code++, idx++) {
        if ((int) (idx % nshards) != shard) continue;
        uint64_t c = code;
        for (int i = 0; i < len; i++) {
          b[1 + i] = (uint8_t) (c % A);
          c /= A;
        }
        Outcome r = run_one (b);
        if (r.v == V_FAIL) return;
      }
    }
  }
}

static void init () {
  g_bm_al = bm_alphabet ();
  g_ht_al = ht_alphabet ();
}

int main (int argc, char **argv) {
  HarnessCfg cfg = {};
  cfg.property = "C19";
  cfg.fn = case_fn;
  cfg.fork_per_case = false;
  cfg.timeout_s = 60;
  cfg.len_scale = 8;
  cfg.enumerate = enumerate;
  cfg.init = init;
  return harness_main (argc, argv, cfg);
}
