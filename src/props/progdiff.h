// Shared case function for the program-level differential properties (C01, C03, C04, C16 use variants).
#pragma once
#include "../mirmodel/engine.h"
#include <functional>

namespace pd {
using namespace mm;

struct Case {
  Prog prog;
  std::string text;
  std::vector<Input> inputs;   // only the well-defined ones
  std::vector<Obs> ref;
  std::vector<RefStats> stats;
  Features feat;
  int n_undefined = 0;
  std::string undefined_why;
};

static inline GenCfg cfg_from_stream (CS &cs, GenCfg base) {
  GenCfg g = base;
  // feature toggles: small bytes => fewer features
  uint8_t b = cs.byte ();
  if (!(b & 1)) g.fp = false;
  if (!(b & 2)) g.ld = false;
  if (!(b & 4)) g.calls = false;
  if (!(b & 8)) g.exts = false;
  if (!(b & 16)) g.allocas = false;
  if (!(b & 32)) g.indirect = false;
  if (!(b & 64)) g.overflow = false;
  if (!(b & 128)) g.mem_operands = false;
  if (!base.fp) g.fp = false;
  if (!base.ld) g.ld = false;
  if (!base.calls) g.calls = false;
  if (!base.exts) g.exts = false;
  if (!base.allocas) g.allocas = false;
  if (!base.indirect) g.indirect = false;
  if (!base.overflow) g.overflow = false;
  if (!base.mem_operands) g.mem_operands = false;
  if (base.force_calls) g.calls = base.calls;
  if (base.force_allocas) g.allocas = base.allocas;  // properties about calls keep them in every case
  return g;
}

// builds the case; returns false (with o discarded) when no input is well defined
static inline bool make_case (CS &cs, const GenCfg &base, Case &c, Outcome &o) {
  GenCfg g = cfg_from_stream (cs, base);
  ProgGen pg (cs, g);
  c.prog = pg.generate ();
  c.feat = pg.feat;
  c.text = prog_text (c.prog);
  int nin = (int) cs.range (1, 3);
  for (int i = 0; i < nin; i++) {
    Input in = gen_input (cs);
    if (const char *dv = harness_opt ("depth")) in.depth = atoi (dv);  // triage aid: force the call depth of a decoded case
    Obs ob;
    RefStats st;
    std::string why;
    try {
      why = run_reference (c.prog, in, ob, &st);
    } catch (ModelError &e) {
      o.sample = c.text;
      o.fail ("harness:model-error", "generator produced a program the reference evaluator cannot run: " + e.why + "\n" + c.text);
      return false;
    }
    if (!why.empty ()) {
      c.n_undefined++;
      c.undefined_why = why;
      continue;
    }
    c.inputs.push_back (in);
    c.ref.push_back (ob);
    c.stats.push_back (st);
  }
  for (auto &m : c.prog.mods)
    for (auto &f : m.funcs)
      if (has_irreducible_loop (f)) c.feat.irreducible = true;
  std::string s = c.text;
  for (auto &in : c.inputs) s += "input: " + show_input (in) + "\n";
  o.sample = s;
  o.hash = fnv1a_s (s);
  if (c.inputs.empty ()) {
    o.disc ("undefined:" + c.undefined_why);
    return false;
  }
  return true;
}

static inline void label_features (const Case &c, Outcome &o) {
  const Features &f = c.feat;
  if (f.irreducible) o.label ("irreducible");
  if (f.has_switch) o.label ("switch");
  if (f.jmpi) o.label ("jmpi");
  if (f.fp) o.label ("fp");
  if (f.ld) o.label ("ld");
  if (f.alloca) o.label ("alloca");
  if (f.spill) o.label ("spill");
  if (f.call) o.label ("call");
  if (f.ext) o.label ("ext_call");
  if (f.overflow) o.label ("overflow");
  if (f.mem) o.label ("mem");
  if (f.memop) o.label ("mem_operand_in_arith");
  if (f.indirect) o.label ("indirect_call");
  if (f.inline_i) o.label ("inline_insn");
  if (f.narrow) o.label ("narrow_arg");
  if (f.blkarg) o.label ("blk_arg");
  if (f.multi_res) o.label ("multi_result");
  if (f.wide) o.label ("wide_signature");
  if (f.multi_ret) o.label ("several_returns");
  if (f.fp8) o.label ("fp_args_fill_all_xmm_arg_regs");
  long steps = 0;
  int back = 0, mem = 0, calls = 0, ext = 0;
  for (auto &s : c.stats) {
    steps += s.steps;
    back += s.back_edges;
    mem += s.mem;
    calls += s.calls;
    ext += s.ext_calls;
  }
  if (back > 0) o.label ("executed_loop");
  if (calls > (int) c.stats.size ()) o.label ("executed_call");
  if (ext > 0) o.label ("executed_ext_call");
  if (c.n_undefined) o.label ("some_inputs_undefined");
  o.nontrivial = (back > 0 || steps > 30 * (long) c.stats.size ()) && (mem > 0 || calls > (int) c.stats.size ());
}

// compare one engine against the reference; returns "" or difference text
static inline std::string check_engine (const Case &c, Engine e, std::string &kind) {
  std::vector<Obs> got;
  auto it = c.prog.mods.back ().funcs.begin ();
  std::vector<int> entry_res;
  for (auto &m : c.prog.mods)
    for (auto &f : m.funcs)
      if (f.name == "entry") entry_res = f.res;
  (void) it;
  std::string err = run_engine (c.text, e, c.inputs, got, entry_res);
  if (!err.empty ()) {
    kind = "liberror";
    return err;
  }
  for (size_t i = 0; i < c.inputs.size (); i++) {
    std::string d = compare_obs (c.ref[i], got[i]);
    if (!d.empty ()) {
      kind = d.substr (0, d.find_first_of (" :"));
      return strfmt ("input %zu: ", i) + d;
    }
  }
  return "";
}

// ---- structure-level reduction (replay mode with --opt reduce=1): delete instructions / inputs while the
// failure keeps its signature. `check` re-runs reference + engines on a candidate and fills an Outcome.
typedef std::function<void (const Case &, Outcome &)> CheckFn;

static inline bool recompute_ref (Case &c) {
  c.ref.clear ();
  c.stats.clear ();
  std::vector<Input> keep;
  for (auto &in : c.inputs) {
    Obs ob;
    RefStats st;
    try {
      if (!run_reference (c.prog, in, ob, &st).empty ()) continue;
    } catch (ModelError &) {
      return false;
    }
    keep.push_back (in);
    c.ref.push_back (ob);
    c.stats.push_back (st);
  }
  c.inputs = keep;
  c.text = prog_text (c.prog);
  return !c.inputs.empty ();
}

static inline bool still_fails (const Case &cand, const CheckFn &check, const std::string &sig) {
  Outcome r = run_isolated ([&] (Outcome &oo) {
    Case c2 = cand;
    if (!recompute_ref (c2)) return;
    check (c2, oo);
  });
  return r.v == V_FAIL && r.sig == sig;
}

static inline void reduce_case (Case &c, const CheckFn &check, const std::string &sig) {
  bool progress = true;
  int rounds = 0;
  while (progress && rounds++ < 6) {
    progress = false;
    // drop inputs
    for (size_t i = 0; c.inputs.size () > 1 && i < c.inputs.size ();) {
      Case cand = c;
      cand.inputs.erase (cand.inputs.begin () + i);
      if (still_fails (cand, check, sig)) {
        c = cand;
        progress = true;
      } else
        i++;
    }
    // drop whole functions that nobody needs is hard (references); drop instructions instead
    for (size_t m = 0; m < c.prog.mods.size (); m++)
      for (size_t fi = 0; fi < c.prog.mods[m].funcs.size (); fi++) {
        for (size_t k = c.prog.mods[m].funcs[fi].insns.size (); k-- > 0;) {
          const Insn &in = c.prog.mods[m].funcs[fi].insns[k];
          if (in.code == MIR_LABEL || in.code == MIR_RET) continue;
          Case cand = c;
          auto &v = cand.prog.mods[m].funcs[fi].insns;
          // an overflow insn and its flag branch go together
          if (k + 1 < v.size () && (v[k + 1].code == MIR_BO || v[k + 1].code == MIR_BNO || v[k + 1].code == MIR_UBO || v[k + 1].code == MIR_UBNO))
            v.erase (v.begin () + k, v.begin () + k + 2);
          else if (in.code == MIR_BO || in.code == MIR_BNO || in.code == MIR_UBO || in.code == MIR_UBNO)
            continue;
          else
            v.erase (v.begin () + k);
          if (still_fails (cand, check, sig)) {
            c = cand;
            progress = true;
          }
        }
      }
    // simplify inputs: zero the buffer bytes in chunks, zero scalars
    for (size_t i = 0; i < c.inputs.size (); i++) {
      for (int chunk = 0; chunk < MM_BUF_SIZE; chunk += 16) {
        Case cand = c;
        bool nz = false;
        for (int b = chunk; b < chunk + 16; b++) nz |= cand.inputs[i].buf[b] != 0;
        if (!nz) continue;
        memset (cand.inputs[i].buf + chunk, 0, 16);
        if (still_fails (cand, check, sig)) c = cand, progress = true;
      }
    }
  }
  recompute_ref (c);
}

// replay helper: run the check isolated (it may crash), reduce on failure, report the reduced program
static inline void reduce_and_report (Case &c, const CheckFn &check, Outcome &o) {
  Outcome r = run_isolated ([&] (Outcome &oo) { check (c, oo); });
  if (r.v != V_FAIL) {
    if (r.v == V_DISCARD) o.disc (r.discard);
    return;
  }
  reduce_case (c, check, r.sig);
  std::string s = c.text;
  for (auto &in : c.inputs) s += "input: " + show_input (in) + "\n";
  Outcome r2 = run_isolated ([&] (Outcome &oo) { check (c, oo); });
  o.sample = "REDUCED:\n" + s;
  o.fail (r.sig, (r2.v == V_FAIL ? r2.detail : r.detail) + "\n(reduced from the generated case at instruction level)");
}

}  // namespace pd
