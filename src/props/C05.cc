// C05 / C06 — the C ABI across the MIR/native boundary (one harness; --opt prop=C05|C06).
// C05: MIR code (interp FFI / gen -O0..-O3) calls gcc-compiled callees generated from the same prototype;
//      the callee records the byte image of every argument, the stack alignment, and returns given images.
// C06: gcc-compiled callers invoke MIR functions (interp shim / gen / lazy) through their public address;
//      the MIR body records its parameters; an assembly wrapper checks callee-saved registers, rsp, MXCSR, x87 CW.
#include "../mirmodel/engine.h"
#include "abi_pool.h"
using namespace mm;

static bool g_c06 = false;
static std::string PN () { return g_c06 ? "C06" : "C05"; }

static int asize (const abi_arg &a) {
  if (a.type >= MIR_T_BLK && a.type <= MIR_T_RBLK) return a.size;
  return type_size (a.type);
}
static std::string cls_of (int t) { return t == MIR_T_F ? "f" : t == MIR_T_D ? "d" : t == MIR_T_LD ? "ld" : (t >= MIR_T_BLK ? strfmt ("blk%d", t - MIR_T_BLK) : std::string ("int")); }

// SysV classification summary of a prototype (labels + the signature of a failure)
struct Layout {
  int gpr = 0, xmm = 0;
  bool gpr_overflow = false, xmm_overflow = false, ld_on_stack = false, vararg = false, rblk = false, multi = false;
  std::set<int> blks;
};
static Layout layout_of (const abi_proto &p) {
  Layout l;
  if (p.rblk) l.gpr = 1, l.rblk = true;
  for (int i = 0; i < p.nargs; i++) {
    int t = p.args[i].type;
    if (t == MIR_T_F || t == MIR_T_D) {
      if (l.xmm < 8) l.xmm++;
      else l.xmm_overflow = true;
    } else if (t == MIR_T_LD)
      l.ld_on_stack = true;
    else if (t >= MIR_T_BLK && t < MIR_T_RBLK) {
      l.blks.insert (t - MIR_T_BLK);
      int q = (p.args[i].size + 7) / 8, k = t - MIR_T_BLK;
      if (k == 1) { if (l.gpr + q <= 6) l.gpr += q; else l.gpr_overflow = true; }
      else if (k == 2) { if (l.xmm + q <= 8) l.xmm += q; else l.xmm_overflow = true; }
      else if (k == 3 || k == 4) { if (l.gpr < 6 && l.xmm < 8) l.gpr++, l.xmm++; else l.gpr_overflow = true; }
    } else {
      if (l.gpr < 6) l.gpr++;
      else l.gpr_overflow = true;
    }
  }
  l.vararg = p.vfixed >= 0;
  l.multi = p.nres >= 2;
  return l;
}

static std::string proto_text_of (const abi_proto &p) {
  std::string s;
  for (int r = 0; r < p.nres; r++) s += std::string (r ? ", " : "") + type_name (p.res[r]);
  if (p.rblk) s += strfmt ("rblk:%d(rb)", p.rblk);
  for (int i = 0; i < p.nargs; i++) {
    if (p.vfixed >= 0 && i == p.vfixed) break;
    if (!s.empty ()) s += ", ";
    const abi_arg &a = p.args[i];
    if (a.type >= MIR_T_BLK) s += strfmt ("%s:%d(a%d)", type_name (a.type), a.size, i);
    else s += strfmt ("%s:a%d", type_name (a.type), i);
  }
  if (p.vfixed >= 0) s += ", ...";
  return s;
}

static void fill_value (CS &cs, const abi_arg &a, uint8_t *slot) {
  memset (slot, 0, ABI_SLOT);
  switch (a.type) {
  case MIR_T_F: { float v = pick_f (cs, false); memcpy (slot, &v, 4); break; }
  case MIR_T_D: { double v = pick_d (cs, false); memcpy (slot, &v, 8); break; }
  case MIR_T_LD: { long double v = pick_ld (cs, false); memcpy (slot, &v, 10); break; }
  default:
    if (a.type >= MIR_T_BLK) {
      int k = a.type - MIR_T_BLK;
      for (int q = 0; q * 8 < a.size; q++) {
        bool fp = k == 2 || (k == 3 && q == 1) || (k == 4 && q == 0);
        if (fp) { double v = pick_d (cs, false); memcpy (slot + 8 * q, &v, 8); }
        else { int64_t v = pick_int (cs); memcpy (slot + 8 * q, &v, 8); }
      }
    } else {
      int64_t v = pick_int (cs);
      memcpy (slot, &v, 8);
    }
  }
}
static void fill_res (CS &cs, int type, uint8_t *slot) {
  abi_arg a = {type, 0};
  uint8_t tmp[ABI_SLOT];
  fill_value (cs, a, tmp);
  memcpy (slot, tmp, 16);
}

// ---------------------------------------------------------------- register-state wrapper (C06)
struct RegSnap {
  uint64_t rbx, rbp, r12, r13, r14, r15, rsp;
  uint32_t mxcsr;
  uint16_t fcw, pad;
};
extern "C" void abi_checked_call (abi_caller_t f, void *fn, const uint8_t *in, uint8_t *out, RegSnap *after);
__asm__(".text\n.globl abi_checked_call\n.type abi_checked_call,@function\nabi_checked_call:\n"
        "  pushq %rbx\n  pushq %rbp\n  pushq %r12\n  pushq %r13\n  pushq %r14\n  pushq %r15\n"
        "  pushq %r8\n"                 /* after: 7 pushes + return address = 64 bytes: rsp is 16-byte aligned here */
        "  movq %rdi, %rax\n  movq %rsi, %rdi\n  movq %rdx, %rsi\n  movq %rcx, %rdx\n"
        "  movabsq $0x1111111111111111, %rbx\n  movabsq $0x2222222222222222, %rbp\n  movabsq $0x3333333333333333, %r12\n"
        "  movabsq $0x4444444444444444, %r13\n  movabsq $0x5555555555555555, %r14\n  movabsq $0x6666666666666666, %r15\n"
        "  callq *%rax\n"
        "  movq (%rsp), %r8\n"
        "  movq %rbx, 0(%r8)\n  movq %rbp, 8(%r8)\n  movq %r12, 16(%r8)\n  movq %r13, 24(%r8)\n  movq %r14, 32(%r8)\n  movq %r15, 40(%r8)\n"
        "  movq %rsp, 48(%r8)\n  stmxcsr 56(%r8)\n  fnstcw 60(%r8)\n"
        "  popq %r8\n  popq %r15\n  popq %r14\n  popq %r13\n  popq %r12\n  popq %rbp\n  popq %rbx\n  ret\n"
        ".size abi_checked_call, .-abi_checked_call\n");

// ---------------------------------------------------------------- module builders
static RC rc_for (int t) { return t == MIR_T_F ? FR : t == MIR_T_D ? DR : t == MIR_T_LD ? LDR : W64; }
static int mov_for (int t) { return t == MIR_T_F ? MIR_FMOV : t == MIR_T_D ? MIR_DMOV : t == MIR_T_LD ? MIR_LDMOV : MIR_MOV; }

// C05: MIR caller of native callee k
static std::string build_c05_module (int k, const abi_proto &p, const std::string &sfx = "") {
  Func f;
  f.name = "caller" + sfx;
  f.lab_prefix = "c";
  f.args = {{MIR_T_P, "in"}, {MIR_T_P, "out"}};
  f.regs = {{ADDR, "in"}, {ADDR, "out"}};
  std::vector<Op> call_ops = {Op::Ref ("pk" + sfx), Op::Ref ("ck" + sfx)};
  std::vector<int> res_regs;
  for (int r = 0; r < p.nres; r++) {
    int rr = f.new_reg (rc_for (p.res[r]), "res");
    res_regs.push_back (rr);
    call_ops.push_back (Op::R (rr));
  }
  if (p.rblk) {  // hidden result block: its address is out + 128
    int rb = f.new_reg (ADDR, "rb");
    f.add (MIR_ADD, {Op::R (rb), Op::R (1), Op::I (128)});
    Op o;
    o.k = Op::MEM;
    o.m.type = MIR_T_RBLK;
    o.m.disp = p.rblk;
    o.m.base = rb;
    call_ops.push_back (o);
  }
  for (int i = 0; i < p.nargs; i++) {
    const abi_arg &a = p.args[i];
    if (a.type >= MIR_T_BLK) {
      int b = f.new_reg (ADDR, "b");
      f.add (MIR_ADD, {Op::R (b), Op::R (0), Op::I (i * ABI_SLOT)});
      Op o;
      o.k = Op::MEM;
      o.m.type = a.type;
      o.m.disp = a.size;
      o.m.base = b;
      call_ops.push_back (o);
    } else {
      int r = f.new_reg (rc_for (a.type), "v");
      int mt = MIR_int_type_p ((MIR_type_t) a.type) ? MIR_T_I64 : a.type;  // the full 64-bit image: the call narrows it
      f.add (mov_for (a.type), {Op::R (r), Op::M (mt, i * ABI_SLOT, 0)});
      call_ops.push_back (Op::R (r));
    }
  }
  f.insns.emplace_back (MIR_CALL, call_ops);
  for (int r = 0; r < p.nres; r++) {
    int mt = MIR_int_type_p ((MIR_type_t) p.res[r]) ? MIR_T_I64 : p.res[r];
    f.add (mov_for (p.res[r]), {Op::M (mt, 16 * r, 1), Op::R (res_regs[r])});
  }
  f.insns.emplace_back (MIR_RET, std::vector<Op>{});
  std::string s = "mabi" + sfx + ":\tmodule\npk" + sfx + ":\tproto\t" + proto_text_of (p) + "\n\timport\tck" + sfx + "\n\texport\tcaller" + sfx + "\n" + func_text (f) + "\tendmodule\n";
  (void) k;
  return s;
}

// C06: MIR callee with the prototype's signature; records its parameters at the absolute address of abi_rec
static std::string build_c06_module (const abi_proto &p, CS &cs, bool &uses_alloca, bool &high_pressure) {
  Func f;
  f.name = "callee";
  f.lab_prefix = "e";
  for (int r = 0; r < p.nres; r++) f.res.push_back (p.res[r]);
  int nfix = p.vfixed >= 0 ? p.vfixed : p.nargs;
  if (p.rblk) {
    f.args.push_back ({MIR_T_RBLK, "rb", (size_t) p.rblk});
    f.regs.push_back ({ADDR, "rb"});
  }
  int first_param = (int) f.regs.size ();
  for (int i = 0; i < nfix; i++) {
    const abi_arg &a = p.args[i];
    f.args.push_back ({a.type, strfmt ("a%d", i), (size_t) a.size});
    f.regs.push_back ({a.type >= MIR_T_BLK ? ADDR : rc_for (a.type), strfmt ("a%d", i)});
  }
  f.vararg = p.vfixed >= 0;
  int rec = f.new_reg (ADDR, "rec"), t = f.new_reg (W64, "t"), ret = f.new_reg (ADDR, "retp");
  f.add (MIR_MOV, {Op::R (rec), Op::I ((int64_t) (uintptr_t) abi_rec)});
  f.add (MIR_MOV, {Op::R (ret), Op::I ((int64_t) (uintptr_t) abi_ret)});
  auto record_blk = [&] (int addr_reg, int i, int size) {
    for (int q = 0; q * 8 < size; q++) {
      int rem = size - q * 8;
      int mt = rem >= 8 ? MIR_T_I64 : rem >= 4 ? MIR_T_U32 : MIR_T_U8;
      f.add (MIR_MOV, {Op::R (t), Op::M (mt, q * 8, addr_reg)});
      f.add (MIR_MOV, {Op::M (mt, i * ABI_SLOT + q * 8, rec), Op::R (t)});
      if (rem > 4 && rem < 8) {  // 12-byte struct: second half is an int
        f.add (MIR_MOV, {Op::R (t), Op::M (MIR_T_U32, q * 8, addr_reg)});
        f.add (MIR_MOV, {Op::M (MIR_T_U32, i * ABI_SLOT + q * 8, rec), Op::R (t)});
      }
    }
  };
  for (int i = 0; i < nfix; i++) {
    const abi_arg &a = p.args[i];
    int r = first_param + i;
    if (a.type >= MIR_T_BLK) record_blk (r, i, a.size);
    else f.add (mov_for (a.type), {Op::M (MIR_int_type_p ((MIR_type_t) a.type) ? MIR_T_I64 : a.type, i * ABI_SLOT, rec), Op::R (r)});
  }
  if (p.vfixed >= 0) {  // variadic tail read with the va instructions, in prototype order
    int va = f.new_reg (ADDR, "va"), ap = f.new_reg (ADDR, "ap");
    f.add (MIR_ALLOCA, {Op::R (va), Op::I (32)});
    f.add (MIR_VA_START, {Op::R (va)});
    for (int i = nfix; i < p.nargs; i++) {
      const abi_arg &a = p.args[i];
      if (a.type >= MIR_T_BLK) {
        int dst = f.new_reg (ADDR, "dst");
        f.add (MIR_ADD, {Op::R (dst), Op::R (rec), Op::I (i * ABI_SLOT)});
        f.add (MIR_VA_BLOCK_ARG, {Op::R (dst), Op::R (va), Op::I (a.size), Op::I (a.type - MIR_T_BLK)});
      } else {
        f.add (MIR_VA_ARG, {Op::R (ap), Op::R (va), Op::M (a.type, 0, rec)});
        int v = f.new_reg (rc_for (a.type), "tv");
        f.add (mov_for (a.type), {Op::R (v), Op::M (a.type, 0, ap)});
        f.add (mov_for (a.type), {Op::M (a.type, i * ABI_SLOT, rec), Op::R (v)});
      }
    }
    f.add (MIR_VA_END, {Op::R (va)});
  }
  // filler: many simultaneously live integer values across a native call (forces callee-saved registers / spills)
  int npress = (int) cs.range (0, 3) == 0 ? 0 : (int) cs.range (6, 16);
  high_pressure = npress > 9;
  std::vector<int> pr;
  for (int q = 0; q < npress; q++) {
    int r = f.new_reg (W64, "pr");
    pr.push_back (r);
    f.add (MIR_MOV, {Op::R (r), Op::I (1000 + 7 * q)});
    f.add (MIR_ADD, {Op::R (r), Op::R (r), Op::M (MIR_T_I64, 23 * ABI_SLOT + 32, rec)});  // run-time value: not foldable
  }
  uses_alloca = cs.chance (90);
  int al = -1;
  if (uses_alloca) {
    al = f.new_reg (ADDR, "al");
    if (cs.flip ()) f.add (MIR_ALLOCA, {Op::R (al), Op::I ((int64_t) (8 + cs.range (0, 9) * 8))});
    else {
      f.add (MIR_MOV, {Op::R (t), Op::M (MIR_T_I64, 23 * ABI_SLOT + 40, rec)});  // run-time size 24
      f.add (MIR_ALLOCA, {Op::R (al), Op::R (t)});
    }
    f.add (MIR_MOV, {Op::M (MIR_T_I64, 0, al), Op::I (0x5a5a5a5a)});
  }
  if (npress || uses_alloca) {
    int r = f.new_reg (W64, "er");
    f.insns.emplace_back (MIR_CALL, std::vector<Op>{Op::Ref ("p_ext_ii"), Op::Ref ("ext_ii"), Op::R (r), Op::I (1), Op::I (2)});
  }
  if (npress) {
    int sum = f.new_reg (W64, "sum");
    f.add (MIR_MOV, {Op::R (sum), Op::I (0)});
    for (int r : pr) f.add (MIR_ADD, {Op::R (sum), Op::R (sum), Op::R (r)});
    f.add (MIR_MOV, {Op::M (MIR_T_I64, 23 * ABI_SLOT, rec), Op::R (sum)});
  }
  if (uses_alloca) {
    f.add (MIR_MOV, {Op::R (t), Op::M (MIR_T_I64, 0, al)});
    f.add (MIR_MOV, {Op::M (MIR_T_I64, 23 * ABI_SLOT + 8, rec), Op::R (t)});
    f.add (MIR_AND, {Op::R (t), Op::R (al), Op::I (15)});
    f.add (MIR_MOV, {Op::M (MIR_T_I64, 23 * ABI_SLOT + 16, rec), Op::R (t)});
  }
  // results come from abi_ret; the hidden result block is filled from it
  std::vector<Op> rets;
  for (int r = 0; r < p.nres; r++) {
    int rr = f.new_reg (rc_for (p.res[r]), "rv");
    f.add (mov_for (p.res[r]), {Op::R (rr), Op::M (MIR_int_type_p ((MIR_type_t) p.res[r]) ? MIR_T_I64 : p.res[r], 16 * r, ret)});
    rets.push_back (Op::R (rr));
  }
  if (p.rblk)
    for (int q = 0; q * 8 < p.rblk; q++) {
      f.add (MIR_MOV, {Op::R (t), Op::M (MIR_T_I64, q * 8, ret)});
      f.add (MIR_MOV, {Op::M (MIR_T_I64, q * 8, 0), Op::R (t)});
    }
  f.insns.emplace_back (MIR_RET, rets);
  return "mabi:\tmodule\np_ext_ii:\tproto\ti64, i64:a, i64:b\n\timport\text_ii\n\texport\tcallee\n" + func_text (f) + "\tendmodule\n";
}

static int64_t ext_of (int t, const uint8_t *img) {
  int64_t v;
  memcpy (&v, img, 8);
  return Evaluator::ext_by_type (t, v);
}

static void case_fn (CS &cs, Outcome &o) {
  int k = (int) cs.range (0, abi_nprotos - 1);
  const abi_proto &p = abi_protos[k];
  Layout l = layout_of (p);
  uint8_t in[ABI_MAX_ARGS * ABI_SLOT], retimg[64];
  memset (in, 0, sizeof (in));
  memset (retimg, 0, sizeof (retimg));
  for (int i = 0; i < p.nargs; i++) fill_value (cs, p.args[i], in + i * ABI_SLOT);
  for (int r = 0; r < p.nres; r++) fill_res (cs, p.res[r], retimg + 16 * r);
  if (p.rblk)
    for (int b = 0; b < p.rblk; b++) retimg[b] = cs.byte ();
  bool uses_alloca = false, high_pressure = false;
  std::string text = g_c06 ? build_c06_module (p, cs, uses_alloca, high_pressure) : build_c05_module (k, p);
  // C05: a sibling prototype (same classes, one block size changed inside the same size/8 bucket) used in the SAME context
  bool pair = !g_c06 && p.sibling >= 0 && cs.chance (170);
  bool sibling_first = pair && cs.flip ();
  uint8_t in2[ABI_MAX_ARGS * ABI_SLOT];
  if (pair) {
    text += build_c05_module (p.sibling, abi_protos[p.sibling], "2");
    memcpy (in2, in, sizeof (in));
    for (int i = 0; i < p.nargs; i++)
      if (abi_protos[p.sibling].args[i].size != p.args[i].size) fill_value (cs, abi_protos[p.sibling].args[i], in2 + i * ABI_SLOT);
    o.label ("sibling_pair_same_context");
  }
  std::string classes;
  for (int i = 0; i < p.nargs; i++) classes += std::string (i ? "," : "") + (p.vfixed == i ? "...," : "") + cls_of (p.args[i].type);
  std::string sample = strfmt ("prototype %d: %s\n", k, proto_text_of (p).c_str ()) + text;
  for (int i = 0; i < p.nargs; i++) sample += strfmt ("arg%d=%s ", i, hexs (in + i * ABI_SLOT, asize (p.args[i]) < 8 ? 8 : asize (p.args[i])).c_str ());
  sample += "ret=" + hexs (retimg, p.rblk ? p.rblk : 32) + "\n";
  o.sample = sample;
  o.hash = fnv1a_s (sample);
  if (l.gpr_overflow) o.label ("gpr_overflow");
  if (l.xmm_overflow) o.label ("xmm_overflow");
  if (l.ld_on_stack) o.label ("ld_on_stack");
  if (l.vararg) o.label ("vararg");
  if (l.rblk) o.label ("rblk");
  if (l.multi) o.label ("multi_result");
  for (int b : l.blks) o.label (strfmt ("blk%d", b));
  if (g_c06 && uses_alloca) o.label ("alloca");
  if (g_c06 && high_pressure) o.label ("high_pressure");
  o.nontrivial = l.gpr_overflow || l.xmm_overflow || l.ld_on_stack || !l.blks.empty () || l.multi || l.vararg || l.rblk || (g_c06 && high_pressure);
  static const Engine engines05[] = {E_INTERP_IF, E_GEN0, E_GEN1, E_GEN2, E_GEN3};
  static const Engine engines06[] = {E_INTERP_IF, E_GEN0, E_GEN1, E_GEN2, E_GEN3, E_LAZY};
  const Engine *engines = g_c06 ? engines06 : engines05;
  int nengines = g_c06 ? 6 : 5;
  for (int ei = 0; ei < nengines; ei++) {
    Engine e = engines[ei];
    o.sample = sample + strfmt ("[engine being run: %s]\n", engine_names[e]);
    o.publish ();
    MIR_context_t ctx = MIR_init ();
    if (setjmp (g_err_jb)) return o.fail (PN () + ":liberror:" + engine_names[e], strfmt ("%s: error callback %d: %s", engine_names[e], g_err_code, g_err_msg));
    MIR_set_error_func (ctx, err_func);
    MIR_scan_string (ctx, text.c_str ());
    for (MIR_module_t m = DLIST_HEAD (MIR_module_t, *MIR_get_module_list (ctx)); m != NULL; m = DLIST_NEXT (MIR_module_t, m)) MIR_load_module (ctx, m);
    MIR_load_external (ctx, "ck", abi_callees[k]);
    if (pair) MIR_load_external (ctx, "ck2", abi_callees[p.sibling]);
    MIR_load_external (ctx, "ext_ii", (void *) ext_ii);
    if (e != E_INTERP_IF) {
      MIR_gen_init (ctx);
      MIR_gen_set_optimize_level (ctx, e == E_GEN0 ? 0 : e == E_GEN1 ? 1 : e == E_GEN3 ? 3 : 2);
    }
    MIR_link (ctx, e == E_INTERP_IF ? MIR_set_interp_interface : e == E_LAZY ? MIR_set_lazy_gen_interface : MIR_set_gen_interface, NULL);
    uint8_t out[256];
    memset (out, 0xee, sizeof (out));
    memset (abi_rec, 0xdd, sizeof (abi_rec));
    abi_rec_proto = -1;
    abi_rec_align = -1;
    memcpy (abi_ret, retimg, 64);
    auto where = [&] (int i) {
      std::string seq;
      for (int j = 0; j <= i; j++) seq += std::string (j ? "," : "") + cls_of (p.args[j].type);
      return seq;
    };
    if (!g_c06) {
      MIR_item_t caller = find_item (ctx, "caller");
      auto run_sibling = [&] () -> std::string {
        const abi_proto &p2 = abi_protos[p.sibling];
        uint8_t out2[256];
        MIR_item_t c2 = find_item (ctx, "caller2");
        abi_rec_proto = -1;
        memset (abi_rec, 0xdd, sizeof (abi_rec));
        ((void (*) (uint8_t *, uint8_t *)) c2->addr) (in2, out2);
        if (abi_rec_proto != p.sibling) return "sibling callee not reached";
        for (int i = 0; i < p2.nargs; i++)
          if (memcmp (abi_rec + i * ABI_SLOT, in2 + i * ABI_SLOT, asize (p2.args[i])) != 0)
            return strfmt ("sibling prototype %d (block size %d instead of %d somewhere) used in the same context: argument %d arrived as %s, passed %s", p.sibling, 0, 0, i,
                           hexs (abi_rec + i * ABI_SLOT, asize (p2.args[i])).c_str (), hexs (in2 + i * ABI_SLOT, asize (p2.args[i])).c_str ());
        return "";
      };
      if (pair && sibling_first) {
        std::string d = run_sibling ();
        if (!d.empty ()) return o.fail (std::string ("C05:sibling-pair:") + (e == E_INTERP_IF ? "interp" : "gen"), std::string (engine_names[e]) + ": " + d);
        abi_rec_proto = -1;
        memset (abi_rec, 0xdd, sizeof (abi_rec));
      }
      ((void (*) (uint8_t *, uint8_t *)) caller->addr) (in, out);
      if (abi_rec_proto != k) return o.fail ("C05:callee-not-reached", strfmt ("%s: the native callee of prototype %d was not entered", engine_names[e], k));
      if (abi_rec_align != 0)
        return o.fail (std::string ("C05:stack-misaligned:") + (e == E_INTERP_IF ? "interp" : "gen"),
                       strfmt ("%s: stack not 16-byte aligned at the call (frame address & 15 = %d); argument classes %s", engine_names[e], abi_rec_align, classes.c_str ()));
      for (int i = 0; i < p.nargs; i++) {
        int n = asize (p.args[i]);
        if (memcmp (abi_rec + i * ABI_SLOT, in + i * ABI_SLOT, n) != 0)
          return o.fail (strfmt ("C05:arg:%s:%s", e == E_INTERP_IF ? "interp" : "gen", where (i).c_str ()),
                         strfmt ("%s: argument %d (%s) arrived as %s, passed %s; classes up to it: %s", engine_names[e], i, cls_of (p.args[i].type).c_str (),
                                 hexs (abi_rec + i * ABI_SLOT, n).c_str (), hexs (in + i * ABI_SLOT, n).c_str (), where (i).c_str ()));
      }
      for (int r = 0; r < p.nres; r++) {
        bool ok;
        if (MIR_int_type_p ((MIR_type_t) p.res[r])) {
          int64_t got;
          memcpy (&got, out + 16 * r, 8);
          ok = got == ext_of (p.res[r], retimg + 16 * r);
        } else
          ok = memcmp (out + 16 * r, retimg + 16 * r, type_size (p.res[r])) == 0;
        if (!ok)
          return o.fail (strfmt ("C05:result:%s:%d-of-%d:%s", e == E_INTERP_IF ? "interp" : "gen", r, p.nres, type_name (p.res[r])),
                         strfmt ("%s: result %d (%s) received as %s, callee returned %s", engine_names[e], r, type_name (p.res[r]), hexs (out + 16 * r, 10).c_str (),
                                 hexs (retimg + 16 * r, 10).c_str ()));
      }
      if (p.rblk && memcmp (out + 128, retimg, p.rblk) != 0) return o.fail ("C05:rblk", strfmt ("%s: returned block differs", engine_names[e]));
      if (pair && !sibling_first) {
        std::string d = run_sibling ();
        if (!d.empty ()) return o.fail (std::string ("C05:sibling-pair:") + (e == E_INTERP_IF ? "interp" : "gen"), std::string (engine_names[e]) + ": " + d);
      }
    } else {
      MIR_item_t callee = find_item (ctx, "callee");
      RegSnap snap;
      memset (&snap, 0, sizeof (snap));
      uint32_t mx0;
      uint16_t cw0;
      __asm__ volatile("stmxcsr %0" : "=m"(mx0));
      __asm__ volatile("fnstcw %0" : "=m"(cw0));
      int64_t rt24 = 24, zero = 0;
      memcpy (abi_rec + 23 * ABI_SLOT + 32, &zero, 8);
      memcpy (abi_rec + 23 * ABI_SLOT + 40, &rt24, 8);
      uint64_t rsp_probe = 0;
      abi_checked_call (abi_callers[k], callee->addr, in, out, &snap);
      (void) rsp_probe;
      static const char *rn[] = {"rbx", "rbp", "r12", "r13", "r14", "r15"};
      uint64_t exp[] = {0x1111111111111111ull, 0x2222222222222222ull, 0x3333333333333333ull, 0x4444444444444444ull, 0x5555555555555555ull, 0x6666666666666666ull};
      uint64_t *got = &snap.rbx;
      for (int q = 0; q < 6; q++)
        if (got[q] != exp[q])
          return o.fail (strfmt ("C06:callee-saved:%s:%s", e == E_INTERP_IF ? "interp" : "gen", rn[q]),
                         strfmt ("%s: %s not preserved across the call (0x%lx)", engine_names[e], rn[q], (unsigned long) got[q]));
      if ((snap.mxcsr & 0xffc0) != (mx0 & 0xffc0)) return o.fail ("C06:mxcsr", strfmt ("%s: MXCSR control bits changed %x -> %x", engine_names[e], mx0, snap.mxcsr));
      if (snap.fcw != cw0) return o.fail ("C06:x87cw", strfmt ("%s: x87 control word changed %x -> %x", engine_names[e], cw0, snap.fcw));
      for (int i = 0; i < p.nargs; i++) {
        int n = asize (p.args[i]);
        bool ok;
        if (p.args[i].type < MIR_T_BLK && MIR_int_type_p ((MIR_type_t) p.args[i].type)) {
          int64_t g;
          memcpy (&g, abi_rec + i * ABI_SLOT, 8);
          ok = g == ext_of (p.args[i].type, in + i * ABI_SLOT);
        } else
          ok = memcmp (abi_rec + i * ABI_SLOT, in + i * ABI_SLOT, n) == 0;
        if (!ok)
          return o.fail (strfmt ("C06:param:%s:%s%s", e == E_INTERP_IF ? "interp" : "gen", i >= (p.vfixed >= 0 ? p.vfixed : 99) ? "vararg:" : "", where (i).c_str ()),
                         strfmt ("%s: parameter %d (%s%s) seen inside the MIR function as %s, the native caller passed %s; classes up to it: %s", engine_names[e], i,
                                 cls_of (p.args[i].type).c_str (), i >= (p.vfixed >= 0 ? p.vfixed : 99) ? ", variadic" : "", hexs (abi_rec + i * ABI_SLOT, n < 8 ? 8 : n).c_str (),
                                 hexs (in + i * ABI_SLOT, n < 8 ? 8 : n).c_str (), where (i).c_str ()));
      }
      for (int r = 0; r < p.nres; r++)
        if (memcmp (out + 16 * r, retimg + 16 * r, type_size (p.res[r])) != 0)
          return o.fail (strfmt ("C06:result:%s:%d-of-%d:%s", e == E_INTERP_IF ? "interp" : "gen", r, p.nres, type_name (p.res[r])),
                         strfmt ("%s: native caller received result %d as %s, MIR returned %s", engine_names[e], r, hexs (out + 16 * r, 10).c_str (), hexs (retimg + 16 * r, 10).c_str ()));
      if (p.rblk && memcmp (out, retimg, p.rblk) != 0) return o.fail ("C06:rblk", strfmt ("%s: block returned through the hidden pointer differs", engine_names[e]));
      if (uses_alloca) {
        int64_t v, al;
        memcpy (&v, abi_rec + 23 * ABI_SLOT + 8, 8);
        memcpy (&al, abi_rec + 23 * ABI_SLOT + 16, 8);
        if (v != 0x5a5a5a5a) return o.fail ("C06:alloca-contents", strfmt ("%s: alloca block changed across an external call", engine_names[e]));
        if (al != 0) return o.fail ("C06:alloca-alignment", strfmt ("%s: alloca result not 16-byte aligned (low bits %ld)", engine_names[e], (long) al));
      }
    }
    if (e != E_INTERP_IF) MIR_gen_finish (ctx);
    MIR_finish (ctx);
  }
  o.sample = sample;
}

int main (int argc, char **argv) {
  for (int i = 1; i + 1 < argc; i++)
    if (!strcmp (argv[i], "--opt") && !strcmp (argv[i + 1], "prop=C06")) g_c06 = true;
  HarnessCfg cfg = {};
  cfg.property = g_c06 ? "C06" : "C05";
  cfg.fn = case_fn;
  cfg.fork_per_case = true;
  cfg.timeout_s = 20;
  cfg.len_scale = 6;
  return harness_main (argc, argv, cfg);
}
