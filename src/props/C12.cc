// C12 — mir-reduce.h: lossless round trip, damaged streams rejected, no out-of-buffer access.
// Header-only harness (ASan+UBSan); built twice: with asserts and with -DNDEBUG (shipped config).
#include "../common/runner.h"
#include <stdio.h>
#include <stdlib.h>
#include <string.h>
#include <setjmp.h>
#include <signal.h>
#include <algorithm>

extern "C" {
typedef size_t (*reduce_reader_t) (void *start, size_t len, void *aux_data);
typedef size_t (*reduce_writer_t) (const void *start, size_t len, void *aux_data);
extern size_t c12_overlap_copies;
extern uint8_t c12_fill;
int c12_encode (reduce_reader_t rd, reduce_writer_t wr, void *aux);
int c12_decode (reduce_reader_t rd, reduce_writer_t wr, void *aux);
}
#define n_overlap_copies c12_overlap_copies
#define g_fill c12_fill

struct Io {
  const uint8_t *in;
  size_t in_len, in_pos;
  std::vector<uint8_t> out;
};
static size_t rd (void *start, size_t len, void *aux) {
  Io *io = (Io *) aux;
  size_t n = io->in_len - io->in_pos;
  if (n > len) n = len;
  if (n) memcpy (start, io->in + io->in_pos, n);
  io->in_pos += n;
  return n;
}
static size_t wr (const void *start, size_t len, void *aux) {
  Io *io = (Io *) aux;
  io->out.insert (io->out.end (), (const uint8_t *) start, (const uint8_t *) start + len);
  return len;
}

static bool encode (const std::vector<uint8_t> &x, std::vector<uint8_t> &enc) {
  Io io = {x.data (), x.size (), 0, {}};
  int ok = c12_encode (rd, wr, &io);
  enc.swap (io.out);
  return ok;
}
static bool decode (const uint8_t *e, size_t n, std::vector<uint8_t> &dec) {
  Io io = {e, n, 0, {}};
  int ok = c12_decode (rd, wr, &io);
  dec.swap (io.out);
  return ok;
}

// assert() in the header => SIGABRT. In the assert-enabled build an assert on a *damaged* stream
// is the debug build's way of reporting and is only counted; catch it with sigsetjmp.
static sigjmp_buf g_jb;
static volatile int g_catch_abort = 0;
static void on_abort (int) {
  if (g_catch_abort) siglongjmp (g_jb, 1);
  signal (SIGABRT, SIG_DFL);
  abort ();
}

static bool has_backref (const std::vector<uint8_t> &enc) {
  // parse the element structure of a valid encoding
  size_t p = 3;
  while (p < enc.size ()) {
    uint8_t tag = enc[p++];
    if (tag == 0) return false;
    uint32_t sl = tag >> 5, rl = tag & 31;
    auto rdu = [&] () -> uint32_t {
      uint32_t u = enc[p++];
      int n = 1;
      while (n <= 4 && (u >> (8 - n)) != 1) n++;
      uint32_t v = u & (0xff >> n);
      for (int i = 1; i < n; i++) v = v * 256 + enc[p++];
      return v;
    };
    if (sl != 0) {
      if (sl == 7) sl = rdu ();
      p += sl;
    }
    if (rl != 0) return true;
  }
  return false;
}

// positions of structural bytes (tags, uints, hash) in a valid encoding, vs literal payload
static void structural_positions (const std::vector<uint8_t> &enc, std::vector<char> &st) {
  st.assign (enc.size (), 1);
  size_t p = 3;
  while (p < enc.size ()) {
    uint8_t tag = enc[p++];
    if (tag == 0) break;
    uint32_t sl = tag >> 5, rl = tag & 31;
    auto rdu = [&] () -> uint32_t {
      uint32_t u = enc[p++];
      int n = 1;
      while (n <= 4 && (u >> (8 - n)) != 1) n++;
      uint32_t v = u & (0xff >> n);
      for (int i = 1; i < n && p < enc.size (); i++) v = v * 256 + enc[p++];
      return v;
    };
    if (sl != 0) {
      if (sl == 7) sl = rdu ();
      for (uint32_t i = 0; i < sl && p < enc.size (); i++) st[p++] = 0;
    }
    if (rl != 0) {
      if (rl == 31) rdu ();
      rdu ();
    }
  }
}

// ---- element-level view of a valid encoding (for structure-aware faults)
struct El {
  size_t start, end;       // byte span in the encoding
  uint32_t sym_len, ref_raw, ref_ind;
  size_t sym_off;          // offset of literal bytes
  size_t out_before;       // decoded position (within the current buffer) before this element
  bool last_in_buffer;     // decoded position reaches the buffer length after this element
};
static uint32_t rd_uint (const std::vector<uint8_t> &enc, size_t &p) {
  uint32_t u = enc[p++];
  int n = 1;
  while (n <= 4 && (u >> (8 - n)) != 1) n++;
  uint32_t v = u & (0xff >> n);
  for (int i = 1; i < n && p < enc.size (); i++) v = v * 256 + enc[p++];
  return v;
}
static void wr_uint (std::vector<uint8_t> &out, uint32_t u) {
  int n;
  for (n = 1; n <= 4 && u >= (1u << 7 * n); n++) {}
  out.push_back ((uint8_t) ((1 << (8 - n)) | ((u >> (n - 1) * 8) & 0xff)));
  for (int i = 2; i <= n; i++) out.push_back ((uint8_t) ((u >> (n - i) * 8) & 0xff));
}
static void parse_elements (const std::vector<uint8_t> &enc, std::vector<El> &els) {
  size_t p = 3, out = 0;
  while (p < enc.size ()) {
    El e = {};
    e.start = p;
    uint8_t tag = enc[p++];
    if (tag == 0) break;
    e.out_before = out;
    e.sym_len = tag >> 5;
    e.ref_raw = tag & 31;
    if (e.sym_len != 0) {
      if (e.sym_len == 7) e.sym_len = rd_uint (enc, p);
      e.sym_off = p;
      p += e.sym_len;
      out += e.sym_len;
    }
    if (e.ref_raw != 0) {
      if (e.ref_raw == 31) e.ref_raw = rd_uint (enc, p);
      e.ref_ind = rd_uint (enc, p);
      out += e.ref_raw + 3;
    }
    e.end = p;
    e.last_in_buffer = out >= (1u << 18);
    if (e.last_in_buffer) out = 0;
    els.push_back (e);
  }
}
static void emit_element (std::vector<uint8_t> &out, const std::vector<uint8_t> &enc, const El &e, uint32_t sym_len,
                          uint32_t ref_raw, uint32_t ref_ind) {
  out.push_back ((uint8_t) (((sym_len < 7 ? sym_len : 7) << 5) | (ref_raw < 31 ? ref_raw : 31)));
  if (sym_len >= 7) wr_uint (out, sym_len);
  for (uint32_t i = 0; i < sym_len; i++) out.push_back (i < e.sym_len ? enc[e.sym_off + i] : (uint8_t) 'x');
  if (ref_raw != 0) {
    if (ref_raw >= 31) wr_uint (out, ref_raw);
    wr_uint (out, ref_ind);
  }
}

// ---- input generator: structured strings that exercise the match finder ----
static void gen_input (CS &cs, std::vector<uint8_t> &x, std::string &kind) {
  int k = cs.weighted ({3, 3, 3, 3, 2, 2, 1});
  auto big = [&] (size_t small_max) -> size_t {
    // lengths near the interesting boundaries
    int c = cs.weighted ({8, 2, 2, 1, 1});
    switch (c) {
    case 0: return cs.range (0, small_max);
    case 1: return 2047 - 8 + cs.range (0, 16);
    case 2: return cs.range (0, 20000);
    case 3: return (1u << 18) - 8 + cs.range (0, 16);
    default: return harness_tier () ? 2 * (1u << 18) - 8 + cs.range (0, 16) : (1u << 18) + cs.range (0, 300);
    }
  };
  switch (k) {
  case 0: {  // small alphabet random
    kind = "small_alphabet";
    int a = (int) cs.range (1, 4);
    size_t n = big (300);
    for (size_t i = 0; i < n; i++) x.push_back ((uint8_t) ('a' + cs.range (0, a - 1)));
    break;
  }
  case 1: {  // periodic
    kind = "periodic";
    size_t per = cs.range (1, 300), n = big (2000);
    std::vector<uint8_t> unit;
    for (size_t i = 0; i < per; i++) unit.push_back (cs.byte ());
    for (size_t i = 0; i < n; i++) x.push_back (unit[i % per]);
    break;
  }
  case 2: {  // runs
    kind = "runs";
    int nr = (int) cs.range (1, 12);
    for (int r = 0; r < nr; r++) {
      uint8_t b = cs.byte ();
      size_t l = cs.chance (40) ? cs.range (0, 5000) : cs.range (0, 40);
      x.insert (x.end (), l, b);
    }
    break;
  }
  case 3: {  // chunk + filler + repeat of the chunk at a distance near 2^7 / 2^14 / 2^18 symbols
    kind = "lz_distance";
    size_t cl = cs.range (4, 80);
    std::vector<uint8_t> chunk;
    for (size_t i = 0; i < cl; i++) chunk.push_back (cs.byte ());
    static const size_t dists[] = {0, 1, 3, 120, 127, 128, 129, 16380, 16383, 16384, 16390, 262100, 262140};
    size_t d = dists[cs.range (0, harness_tier () ? 12 : 10)];
    x = chunk;
    uint32_t lcg = (uint32_t) cs.u32 () | 1;
    for (size_t i = 0; i < d; i++) {
      lcg = lcg * 1664525u + 1013904223u;
      x.push_back ((uint8_t) (lcg >> 24));
    }
    x.insert (x.end (), chunk.begin (), chunk.end ());
    int reps = (int) cs.range (0, 3);
    for (int r = 0; r < reps; r++) x.insert (x.end (), chunk.begin (), chunk.begin () + cs.range (0, cl));
    break;
  }
  case 4: {  // incompressible (pseudo random from a generated seed) of boundary length
    kind = "incompressible";
    size_t n = big (3000);
    uint32_t lcg = cs.u32 () | 1;
    for (size_t i = 0; i < n; i++) {
      lcg = lcg * 1664525u + 1013904223u;
      x.push_back ((uint8_t) (lcg >> 24));
    }
    break;
  }
  case 5: {  // raw stream bytes
    kind = "raw";
    size_t n = cs.range (0, 200);
    for (size_t i = 0; i < n; i++) x.push_back (cs.byte ());
    break;
  }
  default: {  // self-similar: copy earlier substrings (long matches, length escape codes)
    kind = "self_similar";
    size_t n0 = cs.range (1, 40);
    for (size_t i = 0; i < n0; i++) x.push_back (cs.byte ());
    int steps = (int) cs.range (1, 30);
    for (int s = 0; s < steps && x.size () < 600000; s++) {
      size_t from = cs.range (0, x.size () - 1);
      size_t len = cs.chance (30) ? cs.range (1, 40000) : cs.range (1, 64);
      for (size_t i = 0; i < len; i++) x.push_back (x[from + i % (x.size () - from)]);
      if (cs.chance (100)) x.push_back (cs.byte ());
    }
    break;
  }
  }
}

static std::string show_bytes (const std::vector<uint8_t> &v, size_t max = 48) {
  std::string s = strfmt ("len=%zu ", v.size ());
  s += hexs (v.data (), v.size () < max ? v.size () : max);
  if (v.size () > max) s += "...";
  return s;
}

enum FaultKind { F_TRUNC, F_EXTEND, F_SUBST, F_INSERT, F_DELETE, F_ELEM };
static const char *fault_names[] = {"truncate", "extend", "substitute", "insert", "delete", "element"};

// check one damaged stream against original x. returns false and fills o on violation.
static bool check_damaged (const std::vector<uint8_t> &x, const std::vector<uint8_t> &enc,
                           const std::vector<uint8_t> &dam, const char *what, Outcome &o,
                           bool *rejected, bool *asserted) {
  std::vector<uint8_t> dec;
  bool ok = false;
  *asserted = false;
  n_overlap_copies = 0;
  g_catch_abort = 1;
  if (sigsetjmp (g_jb, 1) == 0) {
    ok = decode (dam.data (), dam.size (), dec);
  } else {
    *asserted = true; /* debug build reported the damage through assert (leaks one block; fine) */
    ok = false;
  }
  g_catch_abort = 0;
  *rejected = !ok;
  if (ok && (!strcmp (what, "truncate") || !strcmp (what, "extend"))) {
    o.fail (std::string ("accepted-") + what,
            strfmt ("%sd stream accepted; orig %s enc %s damaged %s", what, show_bytes (x).c_str (),
                    show_bytes (enc, 200).c_str (), show_bytes (dam, 200).c_str ()));
    return false;
  }
  if (ok && dec != x && dam != enc) {
    o.fail (std::string ("accepted-wrong-output:") + what,
            strfmt ("damaged stream (%s) accepted with different output; orig %s enc %s damaged %s out %s", what,
                    show_bytes (x).c_str (), show_bytes (enc, 200).c_str (), show_bytes (dam, 200).c_str (),
                    show_bytes (dec).c_str ()));
    return false;
  }
  return true;
}

static bool g_publish = true;
static void case_fn (CS &cs, Outcome &o) {
  int mode = cs.weighted ({10, 3, 1});
  static const uint8_t fills[] = {0x00, 0xff, 0xbe, 0x01, 0x7f, 0x80, 0x03};
  g_fill = fills[cs.range (0, 6)];
  if (mode == 1) {
    // raw decoder input: arbitrary bytes, usually behind the magic prefix
    std::vector<uint8_t> s;
    bool prefix = !cs.chance (20);
    if (prefix) s = {'M', 'I', 'R'};
    size_t n = cs.range (0, 64);
    // element-aware construction so that references and long lengths are reached quickly
    while (s.size () < n + 3) {
      int e = cs.weighted ({3, 3, 2, 1});
      if (e == 0) s.push_back (cs.byte ());
      else if (e == 1) {  // literal element
        int sl = (int) cs.range (1, 6);
        s.push_back ((uint8_t) (sl << 5 | (cs.chance (128) ? cs.range (0, 31) : 0)));
        for (int i = 0; i < sl; i++) s.push_back (cs.byte ());
      } else if (e == 2) {  // reference element with big length
        s.push_back ((uint8_t) ((cs.range (0, 7) << 5) | 31));
        int nb = (int) cs.range (1, 4);
        s.push_back ((uint8_t) ((1 << (8 - nb)) | (cs.byte () & (0xff >> nb))));
        for (int i = 1; i < nb; i++) s.push_back (cs.byte ());
        s.push_back ((uint8_t) (0x80 | (cs.byte () & 0x7f)));
      } else {
        s.push_back (0);
        for (int i = 0; i < 8; i++) s.push_back (cs.byte ());
      }
    }
    o.sample = strfmt ("raw stream fill=%02x %s", g_fill, show_bytes (s, 120).c_str ());
    o.hash = fnv1a (s.data (), s.size (), 77);
    o.label ("raw_stream");
    o.publish ();
    std::vector<uint8_t> dec;
    bool ok = false, asserted = false;
    n_overlap_copies = 0;
    g_catch_abort = 1;
    if (sigsetjmp (g_jb, 1) == 0) ok = decode (s.data (), s.size (), dec);
    else asserted = true;
    g_catch_abort = 0;
    if (asserted) o.label ("assert_on_damaged");
    if (n_overlap_copies) o.label ("overlapping_ref");
    if (ok) {
      // accepted: must be byte-identical to what the encoder emits for that output
      std::vector<uint8_t> enc2;
      encode (dec, enc2);
      if (enc2 != s) {
        o.fail ("accepted-non-encoder-stream", "raw stream accepted although it is not encoder output: " + o.sample);
        return;
      }
      o.label ("raw_accepted");
    } else
      o.label ("raw_rejected");
    o.nontrivial = s.size () > 4 && prefix;
    return;
  }
  std::vector<uint8_t> x, enc, dec;
  std::string kind;
  if (mode == 2) {  // explicit case (used to make enumerated failures replayable)
    kind = "explicit";
    size_t n = cs.range (0, 40);
    for (size_t i = 0; i < n; i++) x.push_back (cs.byte ());
  } else
    gen_input (cs, x, kind);
  o.label (kind);
  if (!encode (x, enc)) {
    o.fail ("encode-failed", "encoder returned failure on " + show_bytes (x));
    return;
  }
  n_overlap_copies = 0;
  bool ok = decode (enc.data (), enc.size (), dec);
  o.sample = strfmt ("%s fill=%02x input %s -> enc %s", kind.c_str (), g_fill, show_bytes (x).c_str (),
                     show_bytes (enc).c_str ());
  o.hash = fnv1a (x.data (), x.size ());
  if (!ok || dec != x) {
    o.fail ("roundtrip", strfmt ("decode(encode(x)) %s; x %s enc %s dec %s", ok ? "!= x" : "reported failure",
                                 show_bytes (x).c_str (), show_bytes (enc, 200).c_str (), show_bytes (dec).c_str ()));
    return;
  }
  if (n_overlap_copies) {
    o.fail ("encoder-overlap", "encoder produced a self-overlapping reference: " + show_bytes (x));
    return;
  }
  bool br = has_backref (enc);
  if (br) o.label ("backref");
  std::string base_sample = o.sample;
  if (x.size () > (1u << 18)) o.label ("multi_buffer");
  if (enc.size () > 11 && x.size () > 2047) o.label ("long_input");
  o.nontrivial = br;
  // fault injection on the encoding
  std::vector<char> st;
  structural_positions (enc, st);
  std::vector<El> els;
  parse_elements (enc, els);
  int nf = mode == 2 ? 1 : (int) cs.range (0, x.size () > 100000 ? 2 : 12);
  for (int f = 0; f < nf; f++) {
    int fk = mode == 2 ? (int) cs.range (0, 4) : cs.weighted ({2, 1, 5, 1, 1, els.empty () ? 0 : 5});
    std::vector<uint8_t> dam = enc;
    std::string what = fault_names[fk];
    size_t pos = 0;
    if (mode == 2 && fk == F_SUBST) {  // explicit position and value
      pos = cs.range (0, 255);
      uint8_t nv = cs.byte ();
      if (pos >= enc.size ()) pos = enc.size () - 1;
      dam[pos] = nv;
      what += st[pos] ? "@struct" : "@literal";
    } else
    switch (fk) {
    case F_TRUNC:
      pos = cs.range (0, enc.size () - 1);
      dam.resize (pos);
      break;
    case F_EXTEND: dam.push_back (cs.byte ()); break;
    case F_SUBST: {
      pos = cs.range (0, enc.size () - 1);
      uint8_t nv = cs.byte ();
      if (nv == dam[pos]) nv ^= 1 << cs.range (0, 7);
      dam[pos] = nv;
      what += st[pos] ? "@struct" : "@literal";
      break;
    }
    case F_INSERT:
      pos = cs.range (0, enc.size ());
      dam.insert (dam.begin () + pos, cs.byte ());
      break;
    case F_DELETE:
      pos = cs.range (0, enc.size () - 1);
      dam.erase (dam.begin () + pos);
      break;
    case F_ELEM: {
      // structure-aware: re-encode one element with a slightly different length / index. Elements at
      // the start, at the end and at buffer boundaries are preferred.
      std::vector<size_t> edge;
      for (size_t i = 0; i < els.size (); i++)
        if (els[i].last_in_buffer || (i + 1 < els.size () && els[i + 1].last_in_buffer) || i + 1 == els.size ()
            || i == 0)
          edge.push_back (i);
      size_t ei = (!edge.empty () && cs.chance (160)) ? edge[cs.range (0, edge.size () - 1)]
                                                       : cs.range (0, els.size () - 1);
      const El &e = els[ei];
      uint32_t sl = e.sym_len, rr = e.ref_raw, ri = e.ref_ind;
      static const int deltas[] = {1, -1, 2, 3, -2, -3, 4, 28, 100, -4};
      int d = deltas[cs.range (0, 9)];
      int field = e.ref_raw ? cs.weighted ({5, 3, 1}) : 2;
      if (field == 0) rr = (uint32_t) std::max<int64_t> (1, (int64_t) rr + d), what += ":ref_len";
      else if (field == 1) ri = (uint32_t) std::max<int64_t> (0, (int64_t) ri + d), what += ":ref_ind";
      else sl = (uint32_t) std::max<int64_t> (0, (int64_t) sl + d), what += ":sym_len";
      if (e.last_in_buffer) what += "@buffer_end";
      dam.assign (enc.begin (), enc.begin () + e.start);
      emit_element (dam, enc, e, sl, rr, ri);
      dam.insert (dam.end (), enc.begin () + e.end, enc.end ());
      pos = e.start;
      break;
    }
    }
    if (dam == enc) continue;
    bool rej, asserted;
    o.label (std::string ("fault:") + what);
    o.sample = base_sample + strfmt (" | fault %s at %zu -> %s", what.c_str (), pos, show_bytes (dam, 200).c_str ());
    if (g_publish) o.publish ();
    if (!check_damaged (x, enc, dam, what.c_str (), o, &rej, &asserted)) return;
    if (asserted) o.label ("assert_on_damaged");
    if (!rej) o.label ("equivalent_alteration");
    if (n_overlap_copies) o.label ("overlapping_ref");
  }
}

// ---- exhaustive part: every string over small alphabets up to a length bound, plus exhaustive
// single-position faults on the short encodings
static void enumerate (int tier) {
  int maxlen = tier ? 13 : 10;
  int shard = 0, nshards = 1;
  if (const char *s = harness_opt ("shard")) sscanf (s, "%d/%d", &shard, &nshards);
  uint64_t idx = 0;
  for (int a = 1; a <= 3; a++)
    for (int len = 0; len <= maxlen; len++) {
      uint64_t total = 1;
      for (int i = 0; i < len; i++) total *= a;
      if (a == 1 && len > 0) total = 1;
      for (uint64_t code = 0; code < total; code++, idx++) {
        if ((int) (idx % nshards) != shard) continue;
        std::vector<uint8_t> x;
        uint64_t c = code;
        for (int i = 0; i < len; i++) {
          x.push_back ((uint8_t) ('a' + c % a));
          c /= a;
        }
        bool do_faults = (idx / nshards) % (tier ? 100 : 1000) == 7;
        auto explicit_bytes = [&] (int fk, size_t pos, int v) {
          std::vector<uint8_t> b;
          b.push_back (13); /* weighted({10,3,1}) -> mode 2 */
          b.push_back ((idx & 1) ? 1 : 0); /* fill index */
          b.push_back ((uint8_t) x.size ());
          b.insert (b.end (), x.begin (), x.end ());
          b.push_back ((uint8_t) fk);
          if (fk == F_SUBST) {
            b.push_back ((uint8_t) pos);
            b.push_back ((uint8_t) v);
          } else if (fk == F_TRUNC)
            b.push_back ((uint8_t) pos);
          else if (fk == F_EXTEND)
            b.push_back ((uint8_t) v);
          return b;
        };
        Outcome res = run_closure ([&] (Outcome &o) {
          g_fill = (idx & 1) ? 0xff : 0x00;
          std::vector<uint8_t> enc, dec;
          o.label (strfmt ("exhaustive_alpha%d", a));
          o.sample = "exhaustive " + show_bytes (x);
          o.hash = fnv1a (x.data (), x.size (), 99);
          if (!encode (x, enc)) {
            o.fail ("encode-failed", o.sample);
            return;
          }
          if (!decode (enc.data (), enc.size (), dec) || dec != x) {
            o.fail ("roundtrip", "exhaustive: " + show_bytes (x) + " enc " + show_bytes (enc, 100));
            return;
          }
          o.nontrivial = has_backref (enc);
          if (o.nontrivial) o.label ("backref");
          if (do_faults && enc.size () <= 64) {
            o.label ("exhaustive_faults");
            for (size_t pos = 0; pos <= enc.size (); pos++) {
              bool rej, asserted;
              std::vector<uint8_t> dam (enc.begin (), enc.begin () + pos);
              o.sample = strfmt ("exhaustive %s | truncate at %zu", show_bytes (x).c_str (), pos);
              if (pos < enc.size () && !check_damaged (x, enc, dam, "truncate", o, &rej, &asserted)) return;
              if (pos == enc.size ()) break;
              for (int v = 0; v < 256; v++) {
                if (v == enc[pos]) continue;
                dam = enc;
                dam[pos] = (uint8_t) v;
                o.sample = strfmt ("exhaustive %s enc %s | substitute at %zu value %02x", show_bytes (x).c_str (),
                                   show_bytes (enc, 80).c_str (), pos, v);
                if (pos >= 3 && pos < enc.size () - 9) o.publish (); /* no-op unless forked */
                if (!check_damaged (x, enc, dam, "substitute", o, &rej, &asserted)) return;
              }
            }
            for (int v = 0; v < 256; v++) {
              bool rej, asserted;
              std::vector<uint8_t> dam = enc;
              dam.push_back ((uint8_t) v);
              if (!check_damaged (x, enc, dam, "extend", o, &rej, &asserted)) return;
              if (!rej) {
                o.fail ("accepted-extended", "extended stream accepted: " + show_bytes (x));
                return;
              }
            }
          }
        });
        if (res.v == V_FAIL) {
          // locate the failing fault as an explicit, replayable byte stream (fork mode only)
          std::vector<uint8_t> enc;
          encode (x, enc);
          bool found = false;
          for (size_t pos = 0; pos < enc.size () && !found; pos++) {
            found = run_one (explicit_bytes (F_TRUNC, pos, 0)).v == V_FAIL;
            for (int v = 0; v < 256 && !found; v++)
              if (v != enc[pos]) found = run_one (explicit_bytes (F_SUBST, pos, v)).v == V_FAIL;
          }
          for (int v = 0; v < 256 && !found; v++) found = run_one (explicit_bytes (F_EXTEND, 0, v)).v == V_FAIL;
          return;
        }
      }
    }
}

int main (int argc, char **argv) {
  signal (SIGABRT, on_abort);
  HarnessCfg cfg = {};
  cfg.property = "C12";
  cfg.fn = case_fn;
  cfg.fork_per_case = false;
  cfg.timeout_s = 60;
  cfg.timeout_is_failure = false;
  cfg.len_scale = 6;
  cfg.enumerate = enumerate;
  return harness_main (argc, argv, cfg);
}
