// C13 — imports bind to the most recently loaded definition, for any load / load_external / link history.
// Stateful model-based test: an abstract environment model predicts, after every step, what each linked
// module's entry observes through three access forms and which error the error callback must receive.
#include "../mirmodel/engine.h"
using namespace mm;

#define NNAMES 3
#define MAXMODS 6
static const char *gname[NNAMES] = {"f0", "f1", "f2"};

struct ModCfg {
  bool exp[NNAMES], imp[NNAMES];
  int form[NNAMES];  // how the export is declared: 0 export;def 1 def;export 2 forward;export;def 3 export;forward;def 4 forward;def;export
};

static std::string module_text (int i, const ModCfg &c) {
  std::string s = strfmt ("m%d:\tmodule\np0:\tproto\ti64\n\texport\te%d\n", i, i);
  for (int k = 0; k < NNAMES; k++)
    if (c.imp[k]) s += strfmt ("\timport\t%s\n", gname[k]);
  for (int k = 0; k < NNAMES; k++)
    if (c.exp[k]) {
      std::string def = strfmt ("%s:\tfunc\ti64\n\tret\t%d\n\tendfunc\n", gname[k], 100 * (i + 1) + k);
      std::string ex = strfmt ("\texport\t%s\n", gname[k]), fw = strfmt ("\tforward\t%s\n", gname[k]);
      switch (c.form[k]) {
      case 1: s += def + ex; break;
      case 2: s += fw + ex + def; break;
      case 3: s += ex + fw + def; break;
      case 4: s += fw + def + ex; break;
      default: s += ex + def; break;
      }
    }
  for (int k = 0; k < NNAMES; k++)
    if (c.imp[k]) s += strfmt ("rd%d:\tref\t%s, 0\n", k, gname[k]);
  s += strfmt ("e%d:\tfunc\ti64, p:out\n\tlocal\ti64:r, i64:t\n", i);
  for (int k = 0; k < NNAMES; k++)
    if (c.imp[k]) {
      s += strfmt ("\tcall\tp0, %s, r\n\tmov\ti64:%d(out), r\n", gname[k], k * 24);
      s += strfmt ("\tmov\tt, %s\n\tcall\tp0, t, r\n\tmov\ti64:%d(out), r\n", gname[k], k * 24 + 8);
      s += strfmt ("\tmov\tt, rd%d\n\tmov\tt, i64:(t)\n\tcall\tp0, t, r\n\tmov\ti64:%d(out), r\n", k, k * 24 + 16);
    }
  s += "\tret\t0\n\tendfunc\n\tendmodule\n";
  return s;
}

extern "C" {
static int64_t nat0 (void) { return 9000; }
static int64_t nat1 (void) { return 9001; }
static int64_t nat2 (void) { return 9002; }
static int64_t nat3 (void) { return 9003; }
static int64_t nat7 (void) { return 9007; }
}
static void *nats[] = {(void *) nat0, (void *) nat1, (void *) nat2, (void *) nat3};
static void *resolver (const char *name) { return strcmp (name, "f2") == 0 ? (void *) nat7 : NULL; }

enum StepKind { ST_LOAD, ST_EXT, ST_REDEF, ST_LINK, ST_CALL };
struct Step {
  int kind, a, b;  // load(a) ext(name a, native b) redef(a) link(resolver a, engine b) call(a)
};
static std::string show_step (const Step &s) {
  switch (s.kind) {
  case ST_LOAD: return strfmt ("load(m%d)", s.a);
  case ST_EXT: return strfmt ("load_external(%s,nat%d)", gname[s.a], s.b);
  case ST_REDEF: return strfmt ("redef_permission(%d)", s.a);
  case ST_LINK: return strfmt ("link(resolver=%d,%s)", s.a, s.b ? "gen" : "interp");
  default: return strfmt ("call(e%d)", s.a);
  }
}

static void run_history (int nmods, const ModCfg *cfg, const std::vector<Step> &steps, Outcome &o, const std::string &hdr) {
  std::string tr = hdr;
  // ---- model
  std::map<std::string, int64_t> env;
  bool loaded[MAXMODS] = {false}, linked[MAXMODS] = {false};
  std::vector<int> tolink;
  int64_t bind[MAXMODS][NNAMES];
  bool redef = false;
  int nlinks = 0;
  bool gen_inited = false, dead = false;
  std::map<std::string, int> defs_count;
  std::map<std::string, int> def_at_link;  // number of defs of name at the previous link
  bool redefined_across_link = false, lab_redef_ok = false, lab_redef_rej = false, lab_resolver = false, lab_ext_shadow = false;
  // ---- implementation
  MIR_context_t ctx = MIR_init ();
  MIR_module_t mods[MAXMODS];
  int step_no = 0;
  auto failf = [&] (const std::string &what, const std::string &d) {
    o.sample = tr;
    o.fail ("C13:" + what, strfmt ("step %d: ", step_no) + d + "\nhistory: " + tr);
  };
  if (setjmp (g_err_jb)) return failf ("setup-error", std::string ("error during module creation: ") + g_err_msg);
  MIR_set_error_func (ctx, err_func);
  for (int i = 0; i < nmods; i++) {
    MIR_scan_string (ctx, module_text (i, cfg[i]).c_str ());
    mods[i] = DLIST_TAIL (MIR_module_t, *MIR_get_module_list (ctx));
  }
  for (auto &st : steps) {
    step_no++;
    tr += " " + show_step (st);
    o.sample = tr;
    o.publish ();
    int expect_err = -1;  // MIR_error_type_t or -1
    std::string expect_why;
    switch (st.kind) {
    case ST_LOAD: {
      if (loaded[st.a]) continue;
      // model
      for (int k = 0; k < NNAMES; k++)
        if (cfg[st.a].exp[k]) {
          bool exists = env.count (gname[k]) != 0;
          if (exists && env[gname[k]] >= 9000) lab_ext_shadow = true;
          env[gname[k]] = 100 * (st.a + 1) + k;
          defs_count[gname[k]]++;
          if (nlinks > 0 && defs_count[gname[k]] > def_at_link[gname[k]] && def_at_link[gname[k]] > 0) redefined_across_link = true;
          if (exists && !redef && expect_err < 0) {
            expect_err = MIR_repeated_decl_error;
            expect_why = strfmt ("second definition of %s without redefinition permission", gname[k]);
            lab_redef_rej = true;
            break;
          }
          if (exists) lab_redef_ok = true;
        }
      loaded[st.a] = true;
      tolink.push_back (st.a);
      break;
    }
    case ST_EXT:
      env[gname[st.a]] = 9000 + st.b;
      defs_count[gname[st.a]]++;
      if (nlinks > 0 && def_at_link[gname[st.a]] > 0) redefined_across_link = true;
      break;
    case ST_REDEF: redef = st.a; break;
    case ST_LINK:
      for (int mi : tolink) {
        for (int k = 0; k < NNAMES && expect_err < 0; k++)
          if (cfg[mi].imp[k]) {
            if (!env.count (gname[k])) {
              if (st.a && k == 2) {
                env[gname[k]] = 9007;
                defs_count[gname[k]]++;
                lab_resolver = true;
              } else {
                expect_err = MIR_undeclared_op_ref_error;
                expect_why = strfmt ("import of %s which nobody defined", gname[k]);
                break;
              }
            }
            bind[mi][k] = env[gname[k]];
          }
        if (expect_err >= 0) break;
      }
      if (expect_err < 0) {
        for (int mi : tolink) linked[mi] = true;
        tolink.clear ();
        nlinks++;
        def_at_link = defs_count;
      }
      break;
    case ST_CALL:
      if (!linked[st.a]) continue;
      break;
    }
    // implementation step, error callback captured
    volatile int got_err = -1;
    int64_t out[NNAMES * 3];
    memset (out, 0, sizeof (out));
    if (setjmp (g_err_jb)) {
      got_err = g_err_code;
    } else {
      switch (st.kind) {
      case ST_LOAD: MIR_load_module (ctx, mods[st.a]); break;
      case ST_EXT: MIR_load_external (ctx, gname[st.a], nats[st.b]); break;
      case ST_REDEF: MIR_set_func_redef_permission (ctx, st.a); break;
      case ST_LINK:
        if (st.b && !gen_inited) {
          MIR_gen_init (ctx);
          MIR_gen_set_optimize_level (ctx, 1);
          gen_inited = true;
        }
        MIR_link (ctx, st.b ? MIR_set_gen_interface : MIR_set_interp_interface, st.a ? resolver : NULL);
        break;
      case ST_CALL: {
        MIR_item_t e = find_item (ctx, strfmt ("e%d", st.a).c_str ());
        ((int64_t (*) (int64_t *)) e->addr) (out);
        break;
      }
      }
    }
    if (expect_err >= 0) {
      if (got_err < 0) return failf (std::string (st.kind == ST_LOAD ? "load" : "link") + ":error-not-reported", "expected the error callback (" + expect_why + ") but the step succeeded");
      if (got_err != expect_err) return failf ("wrong-error-code", strfmt ("expected error code %d (%s), got %d: %s", expect_err, expect_why.c_str (), (int) got_err, g_err_msg));
      tr += "=>error(expected)";
      dead = true;
      break;  // context is dead after an error: it is abandoned, not finished
    }
    if (got_err >= 0) return failf (std::string (show_step (st).substr (0, 4)) + ":unexpected-error", strfmt ("error callback %d: %s", (int) got_err, g_err_msg));
    if (st.kind == ST_CALL) {
      static const char *forms[] = {"direct-call", "mov-address-call", "ref-data-call"};
      for (int k = 0; k < NNAMES; k++)
        if (cfg[st.a].imp[k])
          for (int w = 0; w < 3; w++)
            if (out[k * 3 + w] != bind[st.a][k])
              return failf (std::string ("binding:") + forms[w],
                            strfmt ("e%d reached %s through %s and got the definition returning %ld; the definition loaded last before "
                                    "its link step returns %ld", st.a, gname[k], forms[w], (long) out[k * 3 + w], (long) bind[st.a][k]));
    }
  }
  o.sample = tr;
  if (lab_redef_ok) o.label ("redef_allowed");
  if (lab_redef_rej) o.label ("redef_rejected");
  if (lab_resolver) o.label ("resolver_used");
  if (lab_ext_shadow) o.label ("export_over_external");
  if (nlinks >= 2) o.label ("multi_link");
  if (redefined_across_link) o.label ("redefined_across_link");
  o.nontrivial = nlinks >= 2 && redefined_across_link;
  if (!dead) {
    if (gen_inited) MIR_gen_finish (ctx);
    MIR_finish (ctx);
  }
}

static void case_fn (CS &cs, Outcome &o) {
  int mode = cs.weighted ({5, 2});
  ModCfg cfg[MAXMODS];
  memset (cfg, 0, sizeof (cfg));
  std::vector<Step> steps;
  int nmods;
  std::string hdr;
  if (mode == 1) {  // small universe (exhaustively enumerated): 2 modules, 1 name
    int conf = (int) cs.range (0, 3);
    nmods = 2;
    cfg[0].exp[0] = conf != 3;
    cfg[1].exp[0] = conf == 1 || conf == 3;
    cfg[1].imp[0] = conf == 0 || conf == 2;
    cfg[0].imp[0] = conf == 3;
    bool gen = conf == 2;
    cfg[0].form[0] = conf;      // the small universe walks the declaration forms too
    cfg[1].form[0] = conf + 1;
    hdr = strfmt ("[small conf=%d]", conf);
    while (!cs.exhausted () && steps.size () < 7) {
      int op = cs.byte () % 7;
      switch (op) {
      case 0: steps.push_back ({ST_LOAD, 0, 0}); break;
      case 1: steps.push_back ({ST_LOAD, 1, 0}); break;
      case 2: steps.push_back ({ST_EXT, 0, 0}); break;
      case 3: steps.push_back ({ST_REDEF, 1, 0}); break;
      case 4: steps.push_back ({ST_LINK, 0, gen}); break;
      case 5: steps.push_back ({ST_CALL, 0, 0}); break;
      default: steps.push_back ({ST_CALL, 1, 0}); break;
      }
    }
    o.label ("small_universe");
  } else {
    nmods = (int) cs.range (2, MAXMODS);
    for (int i = 0; i < nmods; i++) {
      hdr += strfmt ("m%d{", i);
      for (int k = 0; k < NNAMES; k++) {
        int r = cs.weighted ({3, 3, 2});
        cfg[i].exp[k] = r == 1;
        cfg[i].imp[k] = r == 2;
        if (r == 1) cfg[i].form[k] = (int) cs.range (0, 4);
        if (r) hdr += strfmt ("%s %s,", r == 1 ? "export" : "import", gname[k]);
      }
      hdr += "} ";
    }
    int n = (int) cs.range (1, 16);
    for (int s = 0; s < n; s++) {
      int k = cs.weighted ({5, 2, 1, 4, 5});
      switch (k) {
      case ST_LOAD: steps.push_back ({ST_LOAD, (int) cs.range (0, nmods - 1), 0}); break;
      case ST_EXT: steps.push_back ({ST_EXT, (int) cs.range (0, NNAMES - 1), (int) cs.range (0, 3)}); break;
      case ST_REDEF: steps.push_back ({ST_REDEF, cs.flip (), 0}); break;
      case ST_LINK: steps.push_back ({ST_LINK, cs.flip (), cs.flip ()}); break;
      default: steps.push_back ({ST_CALL, (int) cs.range (0, nmods - 1), 0}); break;
      }
    }
    // make histories productive: permission is often granted first
    if (cs.chance (150)) steps.insert (steps.begin (), {ST_REDEF, 1, 0});
    o.label ("random_history");
  }
  run_history (nmods, cfg, steps, o, hdr);
  o.hash = fnv1a_s (o.sample);
}

static void enumerate (int tier) {
  int shard = 0, nshards = 1;
  if (const char *s = harness_opt ("shard")) sscanf (s, "%d/%d", &shard, &nshards);
  int maxlen = tier ? 6 : 5;
  uint64_t idx = 0;
  for (int conf = 0; conf < 4; conf++)
    for (int len = 1; len <= maxlen; len++) {
      uint64_t total = 1;
      for (int i = 0; i < len; i++) total *= 7;
      for (uint64_t code = 0; code < total; code++, idx++) {
        if ((int) (idx % nshards) != shard) continue;
        std::vector<uint8_t> b = {5, (uint8_t) conf};  // weighted({5,2}): byte 5 -> mode 1
        uint64_t c = code;
        for (int i = 0; i < len; i++) {
          b.push_back ((uint8_t) (c % 7));
          c /= 7;
        }
        if (run_one (b).v == V_FAIL && !harness_opt ("keep_going")) return;
      }
    }
}

int main (int argc, char **argv) {
  HarnessCfg cfg = {};
  cfg.property = "C13";
  cfg.fn = case_fn;
  cfg.fork_per_case = true;
  cfg.timeout_s = 20;
  cfg.len_scale = 2;
  cfg.enumerate = enumerate;
  return harness_main (argc, argv, cfg);
}
