// C17 — all memory goes through the user's allocators and is released at finish.
// Checking allocator (ledger, realloc old-size check, always-moving realloc), checking code allocator (pages are
// read+exec unless write access was requested; a write outside the window faults and is attributed), and
// link-time --wrap of malloc/calloc/realloc/free/mmap/munmap/mprotect to catch direct libc use by library code.
#include "progdiff.h"
#include <signal.h>
#include <sys/mman.h>
extern "C" {
#include "c2mir/c2mir.h"
}
using namespace pd;

// ---------------------------------------------------------------- violation log
static std::vector<std::string> g_viol;
static std::string g_first_sig;
static void violation (const std::string &sig, const std::string &msg) {
  if (g_viol.empty ()) g_first_sig = sig;
  if (g_viol.size () < 20) g_viol.push_back (msg);
}

// ---------------------------------------------------------------- direct libc use by library code
static volatile int g_in_lib = 0;   // set while an API function of the library runs
static volatile int g_in_cb = 0;    // set while one of our allocator callbacks runs
static std::map<void *, size_t> g_ledger;
static size_t g_peak = 0, g_nalloc = 0, g_nrealloc = 0, g_nfree = 0;
extern "C" {
void *__real_malloc (size_t);
void *__real_calloc (size_t, size_t);
void *__real_realloc (void *, size_t);
void __real_free (void *);
void *__real_mmap (void *, size_t, int, int, int, off_t);
int __real_munmap (void *, size_t);
int __real_mprotect (void *, size_t, int);
void *__wrap_malloc (size_t n) {
  if (g_in_lib && !g_in_cb) violation ("direct-libc:malloc", strfmt ("library code called libc malloc(%zu) directly", n));
  return __real_malloc (n);
}
void *__wrap_calloc (size_t a, size_t b) {
  if (g_in_lib && !g_in_cb) violation ("direct-libc:calloc", strfmt ("library code called libc calloc(%zu,%zu) directly", a, b));
  return __real_calloc (a, b);
}
void *__wrap_realloc (void *p, size_t n) {
  if (g_in_lib && !g_in_cb) violation ("direct-libc:realloc", strfmt ("library code called libc realloc(%p,%zu) directly", p, n));
  return __real_realloc (p, n);
}
void __wrap_free (void *p) {
  if (g_in_lib && !g_in_cb && p != NULL) {
    if (g_ledger.count (p)) {
      violation ("direct-libc:free-of-user-block", strfmt ("library code passed a block of %zu bytes obtained from the user allocator to libc free", g_ledger[p]));
      g_ledger.erase (p);  // it is gone now
    } else
      violation ("direct-libc:free", "library code called libc free directly");
  }
  __real_free (p);
}
void *__wrap_mmap (void *a, size_t l, int pr, int fl, int fd, off_t off) {
  if (g_in_lib && !g_in_cb) violation ("direct-libc:mmap", "library code called mmap directly although a code allocator was supplied");
  return __real_mmap (a, l, pr, fl, fd, off);
}
int __wrap_munmap (void *a, size_t l) {
  if (g_in_lib && !g_in_cb) violation ("direct-libc:munmap", "library code called munmap directly");
  return __real_munmap (a, l);
}
int __wrap_mprotect (void *a, size_t l, int p) {
  if (g_in_lib && !g_in_cb) violation ("direct-libc:mprotect", "library code called mprotect directly");
  return __real_mprotect (a, l, p);
}
}
struct CbGuard {
  CbGuard () { g_in_cb++; }
  ~CbGuard () { g_in_cb--; }
};
struct LibGuard {
  LibGuard () { g_in_lib++; }
  ~LibGuard () { g_in_lib--; }
};
#define LIB(stmt) do { LibGuard _g; stmt; } while (0)

// ---------------------------------------------------------------- checking general-purpose allocator
static void *const USER_DATA = (void *) 0xfeed;
static size_t g_live_bytes = 0;
static void *ca_malloc (size_t n, void *ud) {
  CbGuard g;
  if (ud != USER_DATA) violation ("alloc:user_data", "malloc callback received a wrong user_data");
  void *p = __real_malloc (n ? n : 1);
  memset (p, 0xcd, n);
  g_ledger[p] = n;
  g_live_bytes += n;
  if (g_live_bytes > g_peak) g_peak = g_live_bytes;
  g_nalloc++;
  return p;
}
static void *ca_calloc (size_t a, size_t b, void *ud) {
  CbGuard g;
  if (ud != USER_DATA) violation ("alloc:user_data", "calloc callback received a wrong user_data");
  void *p = __real_calloc (a ? a : 1, b ? b : 1);
  g_ledger[p] = a * b;
  g_live_bytes += a * b;
  g_nalloc++;
  return p;
}
static void ca_free (void *p, void *ud) {
  CbGuard g;
  if (ud != USER_DATA) violation ("alloc:user_data", "free callback received a wrong user_data");
  if (p == NULL) return;
  auto it = g_ledger.find (p);
  if (it == g_ledger.end ()) {
    violation ("alloc:free-unknown", strfmt ("free of %p which is not a live block of the user allocator (double free or foreign pointer)", p));
    return;  // do not pass it on: keeps the run alive
  }
  g_live_bytes -= it->second;
  g_ledger.erase (it);
  g_nfree++;
  __real_free (p);
}
static void *ca_realloc (void *p, size_t old_size, size_t n, void *ud) {
  CbGuard g;
  if (ud != USER_DATA) violation ("alloc:user_data", "realloc callback received a wrong user_data");
  g_nrealloc++;
  if (p == NULL) {
    if (old_size != 0) violation ("alloc:realloc-old-size", strfmt ("realloc(NULL) with old_size %zu", old_size));
    void *q = __real_malloc (n ? n : 1);
    g_ledger[q] = n;
    g_live_bytes += n;
    return q;
  }
  auto it = g_ledger.find (p);
  if (it == g_ledger.end ()) {
    violation ("alloc:realloc-unknown", strfmt ("realloc of %p which is not a live block of the user allocator", p));
    return __real_malloc (n ? n : 1);
  }
  if (it->second != old_size)
    violation ("alloc:realloc-old-size", strfmt ("realloc reports old size %zu, the block was allocated with %zu bytes", old_size, it->second));
  if (harness_opt ("realloc_inplace")) {  // triage aid: behave like libc realloc
    void *q = __real_realloc (p, n ? n : 1);
    g_live_bytes += n;
    g_live_bytes -= it->second;
    g_ledger.erase (it);
    g_ledger[q] = n;
    return q;
  }
  // an allocator without native realloc: allocate, copy old_size bytes, free (always moves)
  void *q = __real_malloc (n ? n : 1);
  size_t cp = it->second < n ? it->second : n;
  memcpy (q, p, cp);
  g_live_bytes += n;
  g_live_bytes -= it->second;
  g_ledger.erase (it);
  g_ledger[q] = n;
  __real_free (p);
  return q;
}
static struct MIR_alloc g_alloc = {ca_malloc, ca_calloc, ca_realloc, ca_free, USER_DATA};

// ---------------------------------------------------------------- checking code allocator
struct CodeRegion {
  size_t len;
  bool writable;
};
static std::map<uintptr_t, CodeRegion> g_regions;
static size_t g_nmap = 0, g_nprotect = 0, g_write_faults = 0;
static void *cc_map (size_t len, void *ud) {
  CbGuard g;
  if (ud != USER_DATA) violation ("code:user_data", "mem_map received a wrong user_data");
  void *p = __real_mmap (NULL, len, PROT_READ | PROT_EXEC, MAP_PRIVATE | MAP_ANONYMOUS, -1, 0);
  if (p == (void *) -1) return NULL;
  g_regions[(uintptr_t) p] = {len, false};
  g_nmap++;
  return p;
}
static int cc_unmap (void *p, size_t len, void *ud) {
  CbGuard g;
  if (ud != USER_DATA) violation ("code:user_data", "mem_unmap received a wrong user_data");
  auto it = g_regions.find ((uintptr_t) p);
  if (it == g_regions.end ()) {
    violation ("code:unmap-unknown", strfmt ("mem_unmap(%p, %zu) of a region that was not returned by mem_map", p, len));
    return -1;
  }
  if (it->second.len != len) violation ("code:unmap-length", strfmt ("mem_unmap length %zu, region was mapped with %zu", len, it->second.len));
  __real_munmap (p, it->second.len);
  g_regions.erase (it);
  return 0;
}
static CodeRegion *find_region (uintptr_t a, uintptr_t *start) {
  auto it = g_regions.upper_bound (a);
  if (it == g_regions.begin ()) return NULL;
  --it;
  if (a < it->first + it->second.len) {
    *start = it->first;
    return &it->second;
  }
  return NULL;
}
static int cc_protect (void *p, size_t len, MIR_mem_protect_t prot, void *ud) {
  CbGuard g;
  if (ud != USER_DATA) violation ("code:user_data", "mem_protect received a wrong user_data");
  uintptr_t start;
  CodeRegion *r = find_region ((uintptr_t) p, &start);
  g_nprotect++;
  if (r == NULL || (uintptr_t) p + len > start + r->len) {
    violation ("code:protect-unknown", strfmt ("mem_protect(%p, %zu) outside any region returned by mem_map", p, len));
    return -1;
  }
  // protection is tracked per region (the library always asks for page ranges inside one holder)
  r->writable = prot == PROT_WRITE_EXEC;
  uintptr_t pg = (uintptr_t) p & ~(uintptr_t) 4095;
  return __real_mprotect ((void *) pg, (uintptr_t) p + len - pg, prot == PROT_WRITE_EXEC ? (PROT_READ | PROT_WRITE | PROT_EXEC) : (PROT_READ | PROT_EXEC));
}
static struct MIR_code_alloc g_code_alloc = {cc_map, cc_unmap, cc_protect, USER_DATA};

static void segv_handler (int sig, siginfo_t *si, void *) {
  uintptr_t a = (uintptr_t) si->si_addr, start;
  CodeRegion *r = find_region (a, &start);
  if (r != NULL && si->si_code == SEGV_ACCERR) {
    g_write_faults++;
    if (g_viol.empty ()) g_first_sig = "code:write-without-write-access";
    if (g_viol.size () < 20)
      g_viol.push_back (strfmt ("write to code memory at %p (region %p+%zu) outside a WRITE_EXEC window", (void *) a, (void *) start, r->len));
    // let the run continue: open the page
    __real_mprotect ((void *) (a & ~(uintptr_t) 4095), 4096, PROT_READ | PROT_WRITE | PROT_EXEC);
    return;
  }
  signal (sig, SIG_DFL);
  raise (sig);
}

// ---------------------------------------------------------------- C sources for c2mir
static const char *c_sources[] = {
  "int f1 (int a, int b) { return a * b + 3; }\n",
  "#define SQ(x) ((x)*(x))\n#define CAT(a,b) a##b\nstatic int CAT(hel,per) (int x) { return SQ(x) + 1; }\nint f2 (int n) { int s = 0; for (int i = 0; i < n; i++) s += helper (i); return s; }\n",
  "struct S { int a; double b; char c[5]; };\nstruct S gs = {1, 2.5, \"abc\"};\ndouble f3 (struct S *p) { return p->a + p->b + p->c[1]; }\n",
  "#if defined(FOO) && FOO > 2\nint f4 (void) { return 1; }\n#elif 1\nint f4 (void) { return 2; }\n#endif\n#define M(a, ...) a + f4 (__VA_ARGS__)\nint f5 (void) { return M (3); }\n",
  "typedef unsigned long ul;\nul f6 (ul x) { switch (x & 3) { case 0: return x << 2; case 1: return x >> 1; default: break; } return x ? f6 (x - 1) : 0; }\n",
  "static const char *names[] = {\"a\", \"bb\", \"ccc\"};\nint f7 (int i) { const char *s = names[i % 3]; int n = 0; while (*s++) n++; return n; }\n",
};
struct StrReader {
  const char *s;
  size_t pos;
};
static int str_getc (void *data) {
  StrReader *r = (StrReader *) data;
  return r->s[r->pos] ? (unsigned char) r->s[r->pos++] : EOF;
}

enum Step { ST_SCAN, ST_C2M, ST_OUTPUT, ST_WRITE, ST_LOAD_LINK, ST_RUN, ST_GEN_CYCLE, ST_BIG, ST_WIDE, ST_NSTEPS };
static const char *step_names[] = {"scan", "c2mir", "output", "write", "load+link", "run", "gen_finish+gen_init", "scan-big", "scan-wide"};

static std::vector<uint8_t> *g_wbuf;
static int byte_writer (MIR_context_t, uint8_t b) {
  g_wbuf->push_back (b);
  return 1;
}

static void case_fn (CS &cs, Outcome &o) {
  g_viol.clear ();
  g_ledger.clear ();
  g_regions.clear ();
  g_live_bytes = g_peak = g_nalloc = g_nrealloc = g_nfree = g_nmap = g_nprotect = g_write_faults = 0;
  struct sigaction sa;
  memset (&sa, 0, sizeof (sa));
  sa.sa_sigaction = segv_handler;
  sa.sa_flags = SA_SIGINFO | SA_NODEFER;
  sigaction (SIGSEGV, &sa, NULL);
  // the programs that will be scanned are generated first (so that the choice stream is decoded outside the library)
  // one generator interface kind per context: mixing eager / lazy / lazy-BB generation across link steps of one
  // context, and printing or writing functions after lazy-BB generation (which rewrites their insns in place and
  // is not covered by C16), are outside the error-free histories this property quantifies over
  int gen_kind = (int) cs.range (1, 3);
  int nsteps = (int) cs.range (2, 10);
  std::vector<int> steps;
  std::vector<Case> cases;
  std::vector<int> step_arg;
  for (int s = 0; s < nsteps; s++) {
    int k = cs.weightedv ({5, 3, 2, 2, 5, 4, 1, 1, 1});
    steps.push_back (k);
    int arg = 0;
    if (k == ST_SCAN) {
      GenCfg base;
      base.max_funcs = 2;
      base.max_blocks = 4;
      base.jmpi = false;
      base.const_branches = false;
      base.single_switch = false;
      Case c;
      Outcome tmp;
      if (make_case (cs, base, c, tmp)) {
        arg = (int) cases.size ();
        cases.push_back (c);
      } else
        steps.back () = ST_OUTPUT;
    } else if (k == ST_C2M)
      arg = (int) cs.range (0, 5);
    else if (k == ST_BIG)
      arg = (int) cs.range (200, 3000);  // number of direct call sites (code spans several pages)
    else if (k == ST_WIDE)
      arg = (int) cs.range (1, 90);      // number of parameters (the interpreter shim grows its argument vector beyond 64)
    else if (k == ST_LOAD_LINK)
      arg = cs.flip () ? 0 : gen_kind;  // interpreter, or the one generator interface of this history
    else if (k == ST_RUN)
      arg = cs.flip ();
    step_arg.push_back (arg);
  }
  bool with_gen_level = true;
  unsigned level = (unsigned) cs.range (0, 1);  /* -O2 crashes on exotic CFGs are C01's findings, not allocator issues */
  std::string tr = strfmt ("[O%u]", level);
  MIR_context_t ctx;
  if (setjmp (g_err_jb)) {
    return o.fail ("C17:liberror", strfmt ("error callback %d: %s\nhistory: ", g_err_code, g_err_msg) + tr);
  }
  LIB (ctx = MIR_init2 (&g_alloc, &g_code_alloc));
  LIB (MIR_set_error_func (ctx, err_func));
  LIB (MIR_set_func_redef_permission (ctx, 1));
  bool gen_on = false, c2m_on = false, used_gen = false, used_c2m = false, bb_linked = false;
  int nmods_scanned = 0, wide_n = 0;
  MIR_item_t last_entry = NULL;
  int last_case = -1;
  bool linked_since_scan = false;
  int entry_iface = 0;
  std::vector<MIR_module_t> unloaded;
  auto ensure_gen = [&] () {
    if (!gen_on) {
      LIB (MIR_gen_init (ctx));
      LIB (MIR_gen_set_optimize_level (ctx, level));
      gen_on = true;
      used_gen = true;
    }
  };
  for (size_t s = 0; s < steps.size (); s++) {
    int k = steps[s], arg = step_arg[s];
    tr += std::string (" ") + step_names[k];
    o.sample = tr;
    o.publish ();
    switch (k) {
    case ST_SCAN: {
      // module and exported names must be unique per scan: rename m0 -> m<k>
      std::string t = cases[arg].text;
      std::string from = "m0:\tmodule", to = strfmt ("mod%d:\tmodule", nmods_scanned++);
      size_t p = t.find (from);
      if (p != std::string::npos) t.replace (p, from.size (), to);
      MIR_module_t before = DLIST_TAIL (MIR_module_t, *MIR_get_module_list (ctx));
      LIB (MIR_scan_string (ctx, t.c_str ()));
      for (MIR_module_t m = before ? DLIST_NEXT (MIR_module_t, before) : DLIST_HEAD (MIR_module_t, *MIR_get_module_list (ctx)); m != NULL;
           m = DLIST_NEXT (MIR_module_t, m))
        unloaded.push_back (m);
      last_case = arg;
      linked_since_scan = false;
      tr += strfmt ("(%zu bytes)", t.size ());
      break;
    }
    case ST_BIG:
    case ST_WIDE: {
      std::string t = strfmt ("modx%d:\tmodule\n", nmods_scanned++);
      if (k == ST_BIG) {
        t += "psm:\tproto\ti64, i64:x\n\texport\tbigf\nsmallf:\tfunc\ti64, i64:x\n\tlocal\ti64:a, i64:b, i64:c, i64:d\n";
        // large enough not to be inlined at link time
        for (int q = 0; q < 60; q++) t += "\tadd\ta, x, 1\n\tmul\tb, a, 3\n\tsub\tc, b, x\n\txor\td, c, a\n";
        t += "\tret\td\n\tendfunc\nbigf:\tfunc\ti64, i64:x\n\tlocal\ti64:r\n\tmov\tr, x\n";
        for (int q = 0; q < arg; q++) t += "\tcall\tpsm, smallf, r, r\n";
        t += "\tret\tr\n\tendfunc\n\tendmodule\n";
        tr += strfmt ("(%d call sites)", arg);
      } else {
        t += "\texport\twidef\nwidef:\tfunc\ti64";
        for (int q = 0; q < arg; q++) t += strfmt (", i64:a%d", q);
        t += "\n\tlocal\ti64:s\n\tmov\ts, 0\n";
        for (int q = 0; q < arg; q++) t += strfmt ("\tadd\ts, s, a%d\n", q);
        t += "\tret\ts\n\tendfunc\n\tendmodule\n";
        tr += strfmt ("(%d params)", arg);
        wide_n = arg;
      }
      MIR_module_t before = DLIST_TAIL (MIR_module_t, *MIR_get_module_list (ctx));
      LIB (MIR_scan_string (ctx, t.c_str ()));
      for (MIR_module_t m = before ? DLIST_NEXT (MIR_module_t, before) : DLIST_HEAD (MIR_module_t, *MIR_get_module_list (ctx)); m != NULL;
           m = DLIST_NEXT (MIR_module_t, m))
        unloaded.push_back (m);
      o.label (k == ST_BIG ? "big_code" : (arg > 64 ? "wide_over_64" : "wide"));
      break;
    }
    case ST_C2M: {
      if (!c2m_on) {
        LIB (c2mir_init (ctx));
        c2m_on = true;
        used_c2m = true;
      }
      struct c2mir_options opts;
      memset (&opts, 0, sizeof (opts));
      opts.message_file = NULL;
      opts.module_num = (size_t) (100 + s);
      StrReader r = {c_sources[arg], 0};
      MIR_module_t before = DLIST_TAIL (MIR_module_t, *MIR_get_module_list (ctx));
      int ok;
      LIB (ok = c2mir_compile (ctx, &opts, str_getc, &r, strfmt ("src%d.c", arg).c_str (), NULL));
      if (!ok) return o.fail ("C17:c2mir-rejected-valid-source", strfmt ("c2mir_compile failed on source %d\nhistory: ", arg) + tr);
      for (MIR_module_t m = before ? DLIST_NEXT (MIR_module_t, before) : DLIST_HEAD (MIR_module_t, *MIR_get_module_list (ctx)); m != NULL;
           m = DLIST_NEXT (MIR_module_t, m))
        unloaded.push_back (m);
      tr += strfmt ("(src%d)", arg);
      break;
    }
    case ST_OUTPUT: {
      if (bb_linked) break;
      char *buf = NULL;
      size_t len = 0;
      FILE *f = open_memstream (&buf, &len);
      LIB (MIR_output (ctx, f));
      fclose (f);
      free (buf);
      break;
    }
    case ST_WRITE: {
      if (bb_linked) break;
      std::vector<uint8_t> v;
      g_wbuf = &v;
      LIB (MIR_write_with_func (ctx, byte_writer));
      tr += strfmt ("(%zu bytes)", v.size ());
      break;
    }
    case ST_LOAD_LINK: {
      bool new_modules = !unloaded.empty ();
      for (MIR_module_t m : unloaded) LIB (MIR_load_module (ctx, m));
      unloaded.clear ();
      LIB (load_ext_natives (ctx));
      static const char *in[] = {"interp", "gen", "lazy", "lazy-bb", "interp"};
      tr += strfmt ("(%s)", in[arg]);
      o.label (std::string ("iface:") + in[arg]);
      if (arg >= 1 && arg <= 3) ensure_gen ();
      switch (arg) {
      case 1: LIB (MIR_link (ctx, MIR_set_gen_interface, NULL)); break;
      case 2: LIB (MIR_link (ctx, MIR_set_lazy_gen_interface, NULL)); break;
      case 3: LIB (MIR_link (ctx, MIR_set_lazy_bb_gen_interface, NULL)); break;
      default: LIB (MIR_link (ctx, MIR_set_interp_interface, NULL)); break;
      }
      if (new_modules && arg == 3) bb_linked = true;  // a function keeps the interface of the link step that linked its module
      linked_since_scan = true;
      // exercise the special modules through their public addresses (argument vector growth, patched call sites)
      for (MIR_module_t m = DLIST_HEAD (MIR_module_t, *MIR_get_module_list (ctx)); m != NULL; m = DLIST_NEXT (MIR_module_t, m))
        for (MIR_item_t it = DLIST_HEAD (MIR_item_t, m->items); it != NULL; it = DLIST_NEXT (MIR_item_t, it)) {
          if (it->item_type != MIR_func_item || !new_modules) continue;
          if (strcmp (it->u.func->name, "widef") == 0 && (int) it->u.func->nargs == wide_n) {
            typedef int64_t (*wide_fn) (int64_t, int64_t, int64_t, int64_t, int64_t, int64_t, int64_t, int64_t, int64_t, int64_t, int64_t, int64_t, int64_t, int64_t, int64_t, int64_t,
                                        int64_t, int64_t, int64_t, int64_t, int64_t, int64_t, int64_t, int64_t, int64_t, int64_t, int64_t, int64_t, int64_t, int64_t, int64_t, int64_t,
                                        int64_t, int64_t, int64_t, int64_t, int64_t, int64_t, int64_t, int64_t, int64_t, int64_t, int64_t, int64_t, int64_t, int64_t, int64_t, int64_t,
                                        int64_t, int64_t, int64_t, int64_t, int64_t, int64_t, int64_t, int64_t, int64_t, int64_t, int64_t, int64_t, int64_t, int64_t, int64_t, int64_t,
                                        int64_t, int64_t, int64_t, int64_t, int64_t, int64_t, int64_t, int64_t, int64_t, int64_t, int64_t, int64_t, int64_t, int64_t, int64_t, int64_t,
                                        int64_t, int64_t, int64_t, int64_t, int64_t, int64_t, int64_t, int64_t, int64_t, int64_t, int64_t, int64_t, int64_t, int64_t, int64_t, int64_t);
            int64_t r = 0;
            for (int rep = 0; rep < 2; rep++)
              LIB (r = ((wide_fn) it->addr) (1, 2, 3, 4, 5, 6, 7, 8, 9, 10, 11, 12, 13, 14, 15, 16, 17, 18, 19, 20, 21, 22, 23, 24, 25, 26, 27, 28, 29, 30, 31, 32, 33, 34, 35, 36, 37, 38,
                                               39, 40, 41, 42, 43, 44, 45, 46, 47, 48, 49, 50, 51, 52, 53, 54, 55, 56, 57, 58, 59, 60, 61, 62, 63, 64, 65, 66, 67, 68, 69, 70, 71, 72, 73,
                                               74, 75, 76, 77, 78, 79, 80, 81, 82, 83, 84, 85, 86, 87, 88, 89, 90, 91, 92, 93, 94, 95, 96));
            if (r != (int64_t) wide_n * (wide_n + 1) / 2) violation ("wide-call-result", strfmt ("widef with %d parameters returned %ld", wide_n, (long) r));
            tr += "[widef called]";
          } else if (strcmp (it->u.func->name, "bigf") == 0 && arg != 3) {
            LIB (((int64_t (*) (int64_t)) it->addr) (3));
            tr += "[bigf called]";
          }
        }
      // newest entry; it keeps the interface of the link step that linked its module
      {
        MIR_item_t newest = NULL;
        for (MIR_module_t m = DLIST_HEAD (MIR_module_t, *MIR_get_module_list (ctx)); m != NULL; m = DLIST_NEXT (MIR_module_t, m))
          for (MIR_item_t it = DLIST_HEAD (MIR_item_t, m->items); it != NULL; it = DLIST_NEXT (MIR_item_t, it))
            if (it->item_type == MIR_func_item && strcmp (it->u.func->name, "entry") == 0) newest = it;
        if (newest != last_entry) {
          last_entry = newest;
          entry_iface = arg;
        }
      }
      break;
    }
    case ST_RUN: {
      if (last_entry == NULL || last_case < 0 || !linked_since_scan) break;
      if ((entry_iface >= 1 && entry_iface <= 3) && !gen_on) break;  // code generator already finished: lazy stubs must not fire
      const Case &c = cases[last_case];
      const Input &in = c.inputs[0];
      uint8_t *buf = the_buffer ();
      memcpy (buf, in.buf, MM_BUF_SIZE);
      // MIR_interp shares item->data with the lazy-BB stubs: only functions linked for the interpreter or for
      // whole-function generation are interpreted directly (C16 claims exactly those)
      if (arg == 0 && entry_iface != 3 && entry_iface != 2) {
        MIR_val_t res[4], args[5];
        args[0].i = in.depth; args[1].i = in.a0; args[2].i = in.a1; args[3].d = in.x0; args[4].a = buf;
        LIB (MIR_interp_arr (ctx, last_entry, res, 5, args));
        tr += "(MIR_interp)";
      } else {
        LIB (((entry_fn_t) last_entry->addr) (in.depth, in.a0, in.a1, in.x0, buf));
        tr += "(call addr)";
      }
      break;
    }
    case ST_GEN_CYCLE:
      if (gen_on) {
        LIB (MIR_gen_finish (ctx));
        gen_on = false;
      }
      break;
    }
    if (!g_viol.empty ()) break;
  }
  if (g_viol.empty ()) {
    tr += " | finish:";
    if (gen_on) { LIB (MIR_gen_finish (ctx)); tr += " gen_finish"; }
    if (c2m_on) { LIB (c2mir_finish (ctx)); tr += " c2mir_finish"; }
    LIB (MIR_finish (ctx));
    tr += " MIR_finish";
    if (!g_ledger.empty ()) {
      size_t bytes = 0;
      for (auto &kv : g_ledger) bytes += kv.second;
      violation ("alloc:leak", strfmt ("%zu blocks (%zu bytes) obtained from the user allocator were not released by the finish calls", g_ledger.size (), bytes));
    }
    if (!g_regions.empty ()) violation ("code:leak", strfmt ("%zu code regions still mapped after MIR_finish", g_regions.size ()));
  }
  o.sample = tr + strfmt (" [allocs=%zu reallocs=%zu frees=%zu peak=%zuB maps=%zu protects=%zu]", g_nalloc, g_nrealloc, g_nfree, g_peak, g_nmap, g_nprotect);
  o.hash = fnv1a_s (tr);
  (void) with_gen_level;
  if (used_gen) o.label ("gen");
  if (used_c2m) o.label ("c2mir");
  if (g_nrealloc) o.label ("realloc_seen");
  if (g_nprotect) o.label ("code_written");
  o.nontrivial = (used_gen || used_c2m);
  if (!g_viol.empty ()) {
    std::string all;
    for (auto &v : g_viol) all += v + "\n";
    o.fail ("C17:" + g_first_sig, all + "history: " + tr);
  }
}

int main (int argc, char **argv) {
  HarnessCfg cfg = {};
  cfg.property = "C17";
  cfg.fn = case_fn;
  cfg.fork_per_case = true;
  cfg.timeout_s = 20;
  cfg.len_scale = 120;
  return harness_main (argc, argv, cfg);
}
