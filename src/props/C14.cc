// C14 — loaded data items form contiguous, correctly initialised sections.
#include "../mirmodel/engine.h"
#include <deque>
using namespace mm;

struct ExpItem {
  enum K { DATA, BSS, REF, LREF, EXPR, BREAK } k;
  bool named;
  std::string name;
  std::vector<uint8_t> bytes;  // DATA: declared bytes; EXPR: expected value bytes
  size_t size;
  MIR_item_t item, target;  // REF target
  int64_t disp;
  bool two_labels;
};

extern "C" {
static int64_t c14_ext (void) { return 7; }
}
static void *resolver (const char *) { return (void *) c14_ext; }

static void case_fn (CS &cs, Outcome &o) {
  MIR_context_t ctx = MIR_init ();
  if (setjmp (g_err_jb)) return o.fail ("C14:liberror", strfmt ("error callback %d: %s\n", g_err_code, g_err_msg) + o.sample);
  MIR_set_error_func (ctx, err_func);
  std::deque<std::string> keep;
  std::vector<ExpItem> items;
  std::string desc;
  MIR_new_module (ctx, "m");
  MIR_item_t imp = MIR_new_import (ctx, "c14_ext");
  // a function with two labels whose addresses lref items may use; it reports laddr values through `out`
  MIR_type_t i64 = MIR_T_I64;
  MIR_var_t outv = {MIR_T_P, "out", 0};
  MIR_item_t lf = MIR_new_func_arr (ctx, "lf", 1, &i64, 1, &outv);
  MIR_reg_t r1 = MIR_new_func_reg (ctx, lf->u.func, MIR_T_I64, "r1"), outr = MIR_reg (ctx, "out", lf->u.func);
  MIR_label_t la = MIR_new_label (ctx), lb = MIR_new_label (ctx);
  MIR_append_insn (ctx, lf, MIR_new_insn (ctx, MIR_LADDR, MIR_new_reg_op (ctx, r1), MIR_new_label_op (ctx, la)));
  MIR_append_insn (ctx, lf, MIR_new_insn (ctx, MIR_MOV, MIR_new_mem_op (ctx, MIR_T_I64, 0, outr, 0, 1), MIR_new_reg_op (ctx, r1)));
  MIR_append_insn (ctx, lf, MIR_new_insn (ctx, MIR_LADDR, MIR_new_reg_op (ctx, r1), MIR_new_label_op (ctx, lb)));
  MIR_append_insn (ctx, lf, MIR_new_insn (ctx, MIR_MOV, MIR_new_mem_op (ctx, MIR_T_I64, 8, outr, 0, 1), MIR_new_reg_op (ctx, r1)));
  MIR_append_insn (ctx, lf, la);
  MIR_append_insn (ctx, lf, MIR_new_insn (ctx, MIR_ADD, MIR_new_reg_op (ctx, r1), MIR_new_reg_op (ctx, r1), MIR_new_int_op (ctx, 1)));
  MIR_append_insn (ctx, lf, lb);
  MIR_append_insn (ctx, lf, MIR_new_ret_insn (ctx, 1, MIR_new_reg_op (ctx, r1)));
  MIR_finish_func (ctx);
  std::vector<MIR_item_t> named = {imp, lf};
  int n = (int) cs.range (2, 24), uid = 0;
  // forward references: names of data items that will be defined later
  std::vector<std::pair<std::string, MIR_item_t>> fwd;
  int nfwd = (int) cs.range (0, 2);
  for (int q = 0; q < nfwd; q++) {
    keep.push_back (strfmt ("later%d", q));
    fwd.push_back ({keep.back (), MIR_new_forward (ctx, keep.back ().c_str ())});
  }
  size_t fwd_defined = 0;
  // expression functions: some are created ahead of all data items (so that several expr items can share one
  // section), others right before their expr item (the function item then ends the running section)
  struct ExprFn { MIR_item_t fi; MIR_type_t rt; std::vector<uint8_t> bytes; };
  auto make_expr_fn = [&] () {
    std::vector<uint8_t> xb;
    static const MIR_type_t rts[] = {MIR_T_I64, MIR_T_I32, MIR_T_U8, MIR_T_I16, MIR_T_D, MIR_T_F, MIR_T_LD, MIR_T_U32, MIR_T_I8, MIR_T_U16, MIR_T_U64};
    MIR_type_t rt = rts[cs.range (0, 10)];
    keep.push_back (strfmt ("ex%d", uid++));
    MIR_item_t fi = MIR_new_func (ctx, keep.back ().c_str (), 1, &rt, 0);
    size_t es = _MIR_type_size (ctx, rt);
    xb.assign (es, 0);
    if (rt == MIR_T_D) {
      double a = pick_d (cs, true), v = a * 0.5 + 1.0;
      MIR_reg_t r = MIR_new_func_reg (ctx, fi->u.func, MIR_T_D, "v");
      MIR_append_insn (ctx, fi, MIR_new_insn (ctx, MIR_DMUL, MIR_new_reg_op (ctx, r), MIR_new_double_op (ctx, a), MIR_new_double_op (ctx, 0.5)));
      MIR_append_insn (ctx, fi, MIR_new_insn (ctx, MIR_DADD, MIR_new_reg_op (ctx, r), MIR_new_reg_op (ctx, r), MIR_new_double_op (ctx, 1.0)));
      MIR_append_insn (ctx, fi, MIR_new_ret_insn (ctx, 1, MIR_new_reg_op (ctx, r)));
      memcpy (xb.data (), &v, 8);
    } else if (rt == MIR_T_F) {
      float v = pick_f (cs, true);
      MIR_append_insn (ctx, fi, MIR_new_ret_insn (ctx, 1, MIR_new_float_op (ctx, v)));
      memcpy (xb.data (), &v, 4);
    } else if (rt == MIR_T_LD) {
      long double v = pick_ld (cs, true);
      MIR_append_insn (ctx, fi, MIR_new_ret_insn (ctx, 1, MIR_new_ldouble_op (ctx, v)));
      memcpy (xb.data (), &v, 10);
    } else {
      int64_t a = pick_int (cs), b = pick_int (cs), v = (int64_t) ((uint64_t) a + (uint64_t) b);
      MIR_reg_t r = MIR_new_func_reg (ctx, fi->u.func, MIR_T_I64, "v");
      MIR_append_insn (ctx, fi, MIR_new_insn (ctx, MIR_ADD, MIR_new_reg_op (ctx, r), MIR_new_int_op (ctx, a), MIR_new_int_op (ctx, b)));
      MIR_append_insn (ctx, fi, MIR_new_ret_insn (ctx, 1, MIR_new_reg_op (ctx, r)));
      memcpy (xb.data (), &v, es);  // truncated to the result type (little endian)
    }
    MIR_finish_func (ctx);
    return ExprFn{fi, rt, xb};
  };
  std::vector<ExprFn> expr_pool;
  for (int q = (int) cs.range (0, 4); q > 0; q--) expr_pool.push_back (make_expr_fn ());
  for (int it = 0; it < n; it++) {
    ExpItem e;
    int k = cs.weightedv ({8, 4, 3, 2, 2, 2});
    e.k = (ExpItem::K) k;
    e.named = it == 0 ? cs.flip () : cs.chance (70);
    e.item = e.target = NULL;
    e.disp = 0;
    e.two_labels = false;
    if (e.named) {
      if (fwd_defined < fwd.size () && k == ExpItem::DATA && cs.chance (150)) keep.push_back (fwd[fwd_defined++].first);
      else keep.push_back (strfmt ("d%d", uid++));
      e.name = keep.back ();
    }
    const char *name = e.named ? e.name.c_str () : NULL;
    switch (k) {
    case ExpItem::DATA: {
      static const MIR_type_t ts[] = {MIR_T_I8, MIR_T_U8, MIR_T_I16, MIR_T_U16, MIR_T_I32, MIR_T_U32, MIR_T_I64, MIR_T_U64, MIR_T_F, MIR_T_D, MIR_T_LD};
      MIR_type_t t = ts[cs.range (0, 10)];
      size_t es = _MIR_type_size (ctx, t), nel = cs.weighted ({1, 8, 2}) == 0 ? 0 : cs.range (1, cs.chance (60) ? 40 : 5);
      e.bytes.resize (nel * es);
      for (size_t q = 0; q < nel; q++) {
        if (t == MIR_T_LD) {
          long double v = pick_ld (cs, false);
          memset (&e.bytes[q * es], 0, es);
          memcpy (&e.bytes[q * es], &v, 10);
        } else
          for (size_t b = 0; b < es; b++) e.bytes[q * es + b] = cs.byte ();
      }
      uint8_t dummy[16] = {0};
      e.item = MIR_new_data (ctx, name, t, nel, nel ? e.bytes.data () : dummy);
      e.size = nel * es;
      desc += strfmt ("%s%s[%zu] ", e.named ? (e.name + ":").c_str () : "", type_name (t), nel);
      break;
    }
    case ExpItem::BSS:
      e.size = cs.range (0, 100);
      e.item = MIR_new_bss (ctx, name, e.size);
      desc += strfmt ("%sbss %zu ", e.named ? (e.name + ":").c_str () : "", e.size);
      break;
    case ExpItem::REF: {
      bool use_fwd = !fwd.empty () && cs.chance (80);
      e.target = use_fwd ? fwd[cs.range (0, fwd.size () - 1)].second : named[cs.range (0, named.size () - 1)];
      e.disp = cs.chance (128) ? 0 : (int64_t) cs.range (0, 64) - 8;
      e.item = MIR_new_ref_data (ctx, name, e.target, e.disp);
      e.size = 8;
      desc += strfmt ("%sref %s%+ld ", e.named ? (e.name + ":").c_str () : "", MIR_item_name (ctx, e.target), (long) e.disp);
      break;
    }
    case ExpItem::LREF:
      e.two_labels = cs.flip ();
      e.disp = cs.chance (128) ? 0 : (int64_t) cs.range (0, 64) - 8;
      e.item = MIR_new_lref_data (ctx, name, la, e.two_labels ? lb : NULL, e.disp);
      e.size = 8;
      desc += strfmt ("%slref %s%+ld ", e.named ? (e.name + ":").c_str () : "", e.two_labels ? "la-lb" : "la", (long) e.disp);
      break;
    case ExpItem::EXPR: {
      bool pooled = !expr_pool.empty () && cs.chance (170);
      ExprFn xf = pooled ? expr_pool[cs.range (0, expr_pool.size () - 1)] : make_expr_fn ();
      MIR_item_t fi = xf.fi;
      MIR_type_t rt = xf.rt;
      size_t es = _MIR_type_size (ctx, rt);
      e.bytes = xf.bytes;
      if (!pooled) {
        // the function item itself ends any running section
        ExpItem brk;
        brk.k = ExpItem::BREAK;
        brk.named = true;
        brk.size = 0;
        brk.item = fi;
        items.push_back (brk);
      }
      e.item = MIR_new_expr_data (ctx, name, fi);
      e.size = es;
      desc += strfmt ("<func> %sexpr:%s ", e.named ? (e.name + ":").c_str () : "", type_name (rt));
      break;
    }
    default: {  // a proto / import between data items ends the section
      keep.push_back (strfmt ("brk%d", uid++));
      e.item = cs.flip () ? MIR_new_proto (ctx, keep.back ().c_str (), 0, NULL, 0) : MIR_new_import (ctx, keep.back ().c_str ());
      e.size = 0;
      e.named = true;
      desc += "<break> ";
      break;
    }
    }
    if (e.named && e.k != ExpItem::BREAK && e.k != ExpItem::LREF) named.push_back (e.item);
    items.push_back (e);
  }
  // every forward name must end up defined
  for (; fwd_defined < fwd.size (); fwd_defined++) {
    ExpItem e;
    e.k = ExpItem::DATA;
    e.named = true;
    e.name = fwd[fwd_defined].first;
    e.bytes = {1, 2, 3, 4};
    e.size = 4;
    e.item = MIR_new_data (ctx, e.name.c_str (), MIR_T_U8, 4, e.bytes.data ());
    e.target = NULL;
    e.disp = 0;
    e.two_labels = false;
    items.push_back (e);
    desc += e.name + ":u8[4] ";
  }
  MIR_module_t m = DLIST_TAIL (MIR_module_t, *MIR_get_module_list (ctx));
  MIR_finish_module (ctx);
  bool use_gen = cs.flip ();
  o.sample = desc + (use_gen ? "[gen]" : "[interp]");
  o.hash = fnv1a_s (o.sample);
  o.publish ();
  MIR_load_module (ctx, m);
  if (use_gen) {
    MIR_gen_init (ctx);
    MIR_gen_set_optimize_level (ctx, (unsigned) cs.range (0, 3));
  }
  MIR_link (ctx, use_gen ? MIR_set_gen_interface : MIR_set_interp_interface, resolver);
  int64_t labs[2] = {0, 0};
  ((int64_t (*) (int64_t *)) lf->addr) (labs);  // prepares lf in the chosen engine and reports laddr values
  // ---- reference layout
  uint8_t *expect_addr = NULL;
  bool in_section = false;
  int members = 0, kinds_mask = 0, max_members = 0, max_kinds = 0;
  bool zero_len = false, fwd_ref = false, mixed_expr = false;
  size_t sect_expr_size = 0;
  for (size_t i = 0; i < items.size (); i++) {
    ExpItem &e = items[i];
    if (e.k == ExpItem::BREAK) {
      in_section = false;
      continue;
    }
    uint8_t *addr = (uint8_t *) e.item->addr;
    if (addr == NULL) return o.fail ("C14:no-address", strfmt ("item %zu has no address after load: %s", i, desc.c_str ()));
    if (!in_section || e.named) {  // section head
      in_section = true;
      members = 0;
      kinds_mask = 0;
      sect_expr_size = 0;
      if (!e.item->section_head_p) return o.fail ("C14:section-head-flag", strfmt ("item %zu should start a section: %s", i, desc.c_str ()));
    } else {
      if (addr != expect_addr)
        return o.fail (strfmt ("C14:gap:%s", e.k == ExpItem::DATA ? "data" : e.k == ExpItem::BSS ? "bss" : e.k == ExpItem::REF ? "ref" : e.k == ExpItem::LREF ? "lref" : "expr"),
                       strfmt ("item %zu is at %p, its predecessors end at %p (difference %ld): %s", i, (void *) addr, (void *) expect_addr,
                               (long) (addr - expect_addr), desc.c_str ()));
      if (e.item->section_head_p) return o.fail ("C14:section-head-flag", strfmt ("anonymous item %zu marked as a section head: %s", i, desc.c_str ()));
    }
    members++;
    kinds_mask |= 1 << e.k;
    if (e.k == ExpItem::EXPR) {
      if (sect_expr_size != 0 && sect_expr_size != e.size) mixed_expr = true;
      sect_expr_size = e.size;
    }
    max_members = std::max (max_members, members);
    max_kinds = std::max (max_kinds, __builtin_popcount (kinds_mask));
    if (e.size == 0) zero_len = true;
    expect_addr = addr + e.size;
    // ---- contents (ASan checks that every byte read lies inside the section's allocation)
    switch (e.k) {
    case ExpItem::DATA:
      if (e.size && memcmp (addr, e.bytes.data (), e.size) != 0) return o.fail ("C14:data-bytes", strfmt ("data item %zu holds other bytes than declared: %s", i, desc.c_str ()));
      break;
    case ExpItem::BSS:
      for (size_t b = 0; b < e.size; b++)
        if (addr[b] != 0) return o.fail ("C14:bss-not-zero", strfmt ("bss item %zu byte %zu is %02x: %s", i, b, addr[b], desc.c_str ()));
      break;
    case ExpItem::REF: {
      void *v;
      memcpy (&v, addr, 8);
      MIR_item_t t = e.target;
      void *taddr = t->addr;
      if (t->item_type == MIR_forward_item) {
        fwd_ref = true;
        for (auto &x : items)
          if (x.named && x.k != ExpItem::BREAK && x.name == t->u.forward_id) taddr = x.item->addr;
      }
      if (v != (char *) taddr + e.disp)
        return o.fail ("C14:ref-value", strfmt ("ref item %zu holds %p, referenced item is at %p, disp %ld: %s", i, v, taddr, (long) e.disp, desc.c_str ()));
      break;
    }
    case ExpItem::EXPR:
      if (memcmp (addr, e.bytes.data (), e.size == 16 ? 10 : e.size) != 0) /* x87 long double: 10 value bytes, 6 bytes of padding */
        return o.fail ("C14:expr-value", strfmt ("expr item %zu holds %s, expression value is %s: %s", i, hexs (addr, e.size).c_str (), hexs (e.bytes.data (), e.size).c_str (), desc.c_str ()));
      break;
    case ExpItem::LREF: {
      int64_t v;
      memcpy (&v, addr, 8);
      int64_t exp = e.two_labels ? labs[0] - labs[1] + e.disp : labs[0] + e.disp;
      if (v != exp)
        return o.fail ("C14:lref-value", strfmt ("lref item %zu holds %ld, laddr gives %ld (la=%ld lb=%ld disp=%ld): %s", i, (long) v, (long) exp, (long) labs[0],
                                                 (long) labs[1], (long) e.disp, desc.c_str ()));
      break;
    }
    default: break;
    }
  }
  if (max_members >= 3 && max_kinds >= 2) o.label ("section_3plus_members_2plus_kinds");
  if (mixed_expr) o.label ("section_with_expr_items_of_different_width");
  if (zero_len) o.label ("zero_length_member");
  if (fwd_ref) o.label ("forward_ref");
  o.label (use_gen ? "gen" : "interp");
  o.nontrivial = (max_members >= 3 && max_kinds >= 2) || zero_len || fwd_ref;
  if (use_gen) MIR_gen_finish (ctx);
  MIR_finish (ctx);
}

int main (int argc, char **argv) {
  HarnessCfg cfg = {};
  cfg.property = "C14";
  cfg.fn = case_fn;
  cfg.fork_per_case = true;
  cfg.timeout_s = 20;
  cfg.len_scale = 12;
  return harness_main (argc, argv, cfg);
}
