// C18 — independent contexts do not interfere.
// Mode "interleave" (ASan build): 2-3 single-context workloads are interleaved step by step on one thread
// according to a generated schedule; each must observe what it observes when run alone.
// Mode "threads" (TSan build): the same workloads run in real threads; results must equal the solo results and
// ThreadSanitizer must not report a race (the runner turns a TSan report into a failure with the racing frames).
#include "progdiff.h"
#include <pthread.h>
#include <sched.h>
extern "C" {
#include "c2mir/c2mir.h"
}
using namespace pd;

static const char *c_sources[] = {
  "int cf (int a, int b) { int s = 0; for (int i = 0; i < a; i++) s += i * b; return s + 3; }\n",
  "#define SQ(x) ((x)*(x))\nstatic int h (int x) { return SQ(x) + 1; }\nint cf (int a, int b) { return h (a) - h (b); }\n",
  "struct S { int a; double b; };\nstatic struct S g = {2, 2.5};\nint cf (int a, int b) { return (int) (g.a * a + g.b * b); }\n",
};
struct StrReader {
  const char *s;
  size_t pos;
};
static int str_getc (void *data) {
  StrReader *r = (StrReader *) data;
  return r->s[r->pos] ? (unsigned char) r->s[r->pos++] : EOF;
}

struct Workload {
  // definition
  bool is_c = false;
  bool is_greg = false;  // interpreted functions sharing a variable tied to a hard register (a per-context `global`)
  int64_t greg_val = 0;
  int c_src = 0;
  Case cs;        // generated program (when !is_c)
  int engine = 0;  // 0 interp, 1..4 gen -O0..-O3, 5 lazy gen
  // state
  MIR_context_t ctx = NULL;
  bool gen_on = false;
  int pc = 0;
  uint8_t *buf = NULL;
  // observations
  std::vector<Obs> obs;
  int64_t c_result = 0;
  std::string text, error;
};
#define NSTEPS 7
static const char *step_names[NSTEPS] = {"init", "build", "load", "link", "run", "output", "finish"};

static __thread jmp_buf *t_jb;
static __thread char t_err[256];
static void MIR_NO_RETURN err_func_mt (MIR_error_type_t t, const char *fmt, ...) {
  va_list ap;
  va_start (ap, fmt);
  vsnprintf (t_err, sizeof (t_err), fmt, ap);
  va_end (ap);
  (void) t;
  longjmp (*t_jb, 1);
}

// one step of a workload; returns false when the workload failed (error recorded)
static bool do_step (Workload &w) {
  jmp_buf jb;
  t_jb = &jb;
  if (setjmp (jb)) {
    w.error = std::string ("error callback in step ") + step_names[w.pc] + ": " + t_err;
    w.pc = NSTEPS;
    return false;
  }
  switch (w.pc) {
  case 0:
    w.ctx = MIR_init ();
    MIR_set_error_func (w.ctx, err_func_mt);
    break;
  case 1:
    if (w.is_c) {
      c2mir_init (w.ctx);
      struct c2mir_options opts;
      memset (&opts, 0, sizeof (opts));
      opts.module_num = 1;
      StrReader r = {c_sources[w.c_src], 0};
      if (!c2mir_compile (w.ctx, &opts, str_getc, &r, "w.c", NULL)) {
        w.error = "c2mir_compile failed";
        w.pc = NSTEPS;
        return false;
      }
      c2mir_finish (w.ctx);
    } else if (w.is_greg) {
      MIR_scan_string (w.ctx,
                       "gm:\tmodule\n\texport\tsetg, getg\n"
                       "setg:\tfunc\ti64, i64:v\n\tglobal\ti64:g:r14\n\tmov\tg, v\n\tret\tv\n\tendfunc\n"
                       "getg:\tfunc\ti64\n\tglobal\ti64:g:r14\n\tlocal\ti64:t\n\tadd\tt, g, 1\n\tret\tt\n\tendfunc\n\tendmodule\n");
    } else
      MIR_scan_string (w.ctx, w.cs.text.c_str ());
    break;
  case 2:
    for (MIR_module_t m = DLIST_HEAD (MIR_module_t, *MIR_get_module_list (w.ctx)); m != NULL; m = DLIST_NEXT (MIR_module_t, m))
      MIR_load_module (w.ctx, m);
    break;
  case 3:
    if (w.engine >= 1) {
      MIR_gen_init (w.ctx);
      MIR_gen_set_optimize_level (w.ctx, w.engine == 5 ? 2 : (unsigned) (w.engine - 1));
      w.gen_on = true;
    }
    MIR_link (w.ctx, w.engine == 0 ? MIR_set_interp_interface : w.engine == 5 ? MIR_set_lazy_gen_interface : MIR_set_gen_interface, NULL);
    break;
  case 4: {
    if (w.is_greg) {  // the value written here is read back one step later (other workloads run in between)
      MIR_val_t r, a;
      a.i = w.greg_val;
      MIR_interp_arr (w.ctx, find_item (w.ctx, "setg"), &r, 1, &a);
    } else if (w.is_c) {
      MIR_item_t f = find_item (w.ctx, "cf");
      w.c_result = f ? ((int (*) (int, int)) f->addr) (7, 3) : -1;
    } else {
      MIR_item_t entry = find_item (w.ctx, "entry");
      w.obs.clear ();
      for (auto &in : w.cs.inputs) {
        memcpy (w.buf, in.buf, MM_BUF_SIZE);
        Obs o;
        o.res_types = {MIR_T_I64, MIR_T_D};
        RetID r = ((entry_fn_t) entry->addr) (in.depth, in.a0, in.a1, in.x0, w.buf);
        o.results = {VI (r.i), VD (r.d)};
        o.buf.assign (w.buf, w.buf + MM_BUF_SIZE);
        w.obs.push_back (o);
      }
    }
    break;
  }
  case 5: {
    if (w.is_greg) {
      MIR_val_t r;
      r.i = 0;
      MIR_interp_arr (w.ctx, find_item (w.ctx, "getg"), &r, 0, NULL);
      w.c_result = r.i;
    }
    char *b = NULL;
    size_t len = 0;
    FILE *f = open_memstream (&b, &len);
    MIR_output (w.ctx, f);
    fclose (f);
    w.text.assign (b, len);
    free (b);
    break;
  }
  case 6:
    if (w.gen_on) MIR_gen_finish (w.ctx);
    MIR_finish (w.ctx);
    w.ctx = NULL;
    break;
  }
  w.pc++;
  return true;
}

static void reset (Workload &w) {
  w.ctx = NULL;
  w.gen_on = false;
  w.pc = 0;
  w.obs.clear ();
  w.text.clear ();
  w.error.clear ();
  w.c_result = 0;
}

// label numbers in MIR_output depend on nothing but the context, so texts must be identical byte for byte
static std::string diff_workload (const Workload &solo, const Workload &w, int idx) {
  if (solo.error != w.error) return strfmt ("workload %d: solo run %s, concurrent run %s", idx, solo.error.empty () ? "succeeded" : solo.error.c_str (), w.error.empty () ? "succeeded" : w.error.c_str ());
  if (solo.is_greg) {
    if (solo.c_result != w.c_result) return strfmt ("workload %d (interpreted functions with a hard-register variable): read back %ld alone, %ld together", idx, (long) solo.c_result, (long) w.c_result);
  } else if (solo.is_c) {
    if (solo.c_result != w.c_result) return strfmt ("workload %d (c2mir): result %ld alone, %ld together", idx, (long) solo.c_result, (long) w.c_result);
  } else {
    if (solo.obs.size () != w.obs.size ()) return strfmt ("workload %d: number of runs differs", idx);
    for (size_t i = 0; i < solo.obs.size (); i++) {
      Obs ref = solo.obs[i];
      ref.shadow.assign (MM_BUF_SIZE, SH_PLAIN);
      std::string d = compare_obs (ref, w.obs[i]);
      // NaN payloads may legitimately differ between two runs only through operand order, which is fixed here: exact compare
      if (!d.empty ()) return strfmt ("workload %d input %zu: alone vs together: ", idx, i) + d;
    }
  }
  if (solo.text != w.text) return strfmt ("workload %d: MIR_output text differs between the solo and the concurrent run", idx);
  return "";
}

struct ThreadArg {
  Workload *w;
  int yields;
  pthread_barrier_t *bar;
};
static void *thread_main (void *a) {
  ThreadArg *ta = (ThreadArg *) a;
  pthread_barrier_wait (ta->bar);
  for (int y = 0; y < ta->yields; y++) sched_yield ();
  while (ta->w->pc < NSTEPS)
    if (!do_step (*ta->w)) break;
  return NULL;
}

static bool g_threads = false;

static void case_fn (CS &cs, Outcome &o) {
  int nw = (int) cs.range (2, g_threads ? 6 : 3);
  std::vector<Workload> ws (nw);
  std::vector<std::vector<uint8_t>> bufs (nw, std::vector<uint8_t> (MM_BUF_SIZE + 64));
  std::string desc;
  int n_gen = 0, n_c = 0;
  for (int i = 0; i < nw; i++) {
    Workload &w = ws[i];
    w.is_c = cs.chance (70);
    w.buf = bufs[i].data ();
    if (!w.is_c && cs.chance (60)) {
      w.is_greg = true;
      w.engine = 0;
      w.greg_val = 1000 + 17 * i + (int64_t) cs.range (0, 9);
    } else if (w.is_c) {
      w.c_src = (int) cs.range (0, 2);
      w.engine = (int) cs.range (0, 5);
      n_c++;
    } else {
      GenCfg base;
      base.max_funcs = 2;
      base.max_blocks = 4;
      base.exts = false;      // the native-call log is process-global harness state
      base.abs_mem = false;   // every workload owns its buffer
      base.jmpi = false;
      base.const_branches = false;
      base.single_switch = false;
      Outcome tmp;
      if (!make_case (cs, base, w.cs, tmp)) {
        w.is_c = true;
        w.c_src = 0;
      }
      // generated programs are compiled at -O0/-O1 only: the -O2 pipeline has known crashes on exotic CFGs (C01's
      // findings), which are single-context defects and would only blur this property
      w.engine = (int) cs.range (0, 2);
    }
    if (w.engine >= 1) n_gen++;
    desc += strfmt ("w%d{%s,%s} ", i, w.is_greg ? "hard-register variable" : w.is_c ? strfmt ("c2mir src%d", w.c_src).c_str () : "generated program", w.engine == 0 ? "interp" : w.engine == 5 ? "lazy" : strfmt ("gen-O%d", w.engine - 1).c_str ());
  }
  // solo runs (sequential, one context at a time)
  std::vector<Workload> solo = ws;
  for (auto &w : solo) {
    reset (w);
    while (w.pc < NSTEPS)
      if (!do_step (w)) break;
  }
  o.sample = desc;
  if (g_threads) {
    pthread_barrier_t bar;
    pthread_barrier_init (&bar, NULL, (unsigned) nw);
    std::vector<pthread_t> th (nw);
    std::vector<ThreadArg> ta (nw);
    for (int i = 0; i < nw; i++) {
      reset (ws[i]);
      ta[i] = {&ws[i], (int) cs.range (0, 20), &bar};
      desc += strfmt ("y%d=%d ", i, ta[i].yields);
    }
    o.sample = desc + "[threads]";
    o.publish ();
    for (int i = 0; i < nw; i++) pthread_create (&th[i], NULL, thread_main, &ta[i]);
    for (int i = 0; i < nw; i++) pthread_join (th[i], NULL);
    o.label (strfmt ("threads:%d", nw));
  } else {
    // owned schedule: which workload performs its next step
    std::string sched;
    for (auto &w : ws) reset (w);
    int remaining = nw * NSTEPS;
    while (remaining > 0) {
      int i = (int) cs.range (0, nw - 1);
      while (ws[i].pc >= NSTEPS) i = (i + 1) % nw;
      int before = ws[i].pc;
      sched += strfmt ("%d%c", i, "ibLlroF"[before]);
      o.sample = desc + "schedule " + sched;
      o.publish ();
      do_step (ws[i]);
      remaining = 0;
      for (auto &w : ws) remaining += NSTEPS - (w.pc > NSTEPS ? NSTEPS : w.pc);
    }
    desc += "schedule " + sched;
    o.sample = desc;
    o.label ("interleaved");
  }
  o.hash = fnv1a_s (desc + (ws[0].is_c ? "" : ws[0].cs.text));
  if (n_gen) o.label ("uses_gen");
  if (n_c) o.label ("uses_c2mir");
  o.nontrivial = n_gen >= 1 && n_c >= 1;
  for (int i = 0; i < nw; i++) {
    std::string d = diff_workload (solo[i], ws[i], i);
    if (!d.empty ()) return o.fail ("C18:result-differs", d + "\n" + desc);
  }
}

int main (int argc, char **argv) {
  for (int i = 1; i + 1 < argc; i++)
    if (!strcmp (argv[i], "--opt") && !strcmp (argv[i + 1], "mode=threads")) g_threads = true;
  HarnessCfg cfg = {};
  cfg.property = "C18";
  cfg.fn = case_fn;
  cfg.fork_per_case = true;
  cfg.timeout_s = 60;
  cfg.len_scale = 60;
  return harness_main (argc, argv, cfg);
}
