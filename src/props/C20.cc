// C20 — C code emitted by the MIR-to-C translator computes what the MIR module computes.
// A generated single-result module is translated in-process by MIR_module2c, the C text is compiled by gcc into a
// shared object, loaded, and `entry` is called on the generated inputs. Oracle: results, observed buffer and the log
// of native calls equal the reference evaluator (MIR_interp is run too: a case where the interpreter itself
// disagrees with the reference is not a translator matter and is discarded).
#include "progdiff.h"
extern "C" {
#include "mir2c/mir2c.h"
}
#include <dlfcn.h>
#include <signal.h>
#include <sys/time.h>
#include <sys/wait.h>
#include <spawn.h>
#include <fcntl.h>
#include <sys/stat.h>
using namespace pd;

// the translation refers to natives by name (extern char name[]); the C file is compiled with -Dname=c20_name
extern "C" {
int64_t c20_ext_ii (int64_t a, int64_t b) { return ext_ii (a, b); }
double c20_ext_d (double x, int64_t n) { return ext_d (x, n); }
int32_t c20_ext_mix (int32_t a, uint8_t b, double c, float d, int16_t e, uint32_t f, int8_t g) { return ext_mix (a, b, c, d, e, f, g); }
long double c20_ext_ld (long double x, int64_t n) { return ext_ld (x, n); }
int64_t c20_ext_many (int64_t a, int64_t b, int64_t c, int64_t d, int64_t e, int64_t f, int64_t g, double h, int64_t i) {
  return ext_many (a, b, c, d, e, f, g, h, i);
}
}

static std::string tmp_dir () {
  char exe[4096];
  ssize_t n = readlink ("/proc/self/exe", exe, sizeof (exe) - 1);
  exe[n > 0 ? n : 0] = 0;
  std::string d (exe);
  d = d.substr (0, d.rfind ('/'));  // .../build/bin
  d = d.substr (0, d.rfind ('/')) + "/tmp";
  mkdir (d.c_str (), 0777);
  return d;
}

static sigjmp_buf g_alarm_jb;
static void on_vtalrm (int) { siglongjmp (g_alarm_jb, 1); }

static int run_cmd (const std::vector<std::string> &argv, const std::string &errfile) {
  std::vector<char *> av;
  for (auto &a : argv) av.push_back ((char *) a.c_str ());
  av.push_back (NULL);
  posix_spawn_file_actions_t fa;
  posix_spawn_file_actions_init (&fa);
  posix_spawn_file_actions_addopen (&fa, 2, errfile.c_str (), O_WRONLY | O_CREAT | O_TRUNC, 0644);
  posix_spawn_file_actions_addopen (&fa, 1, "/dev/null", O_WRONLY, 0);
  pid_t pid;
  extern char **environ;
  if (posix_spawnp (&pid, av[0], &fa, NULL, av.data (), environ) != 0) return -1;
  posix_spawn_file_actions_destroy (&fa);
  int st = 0;
  while (waitpid (pid, &st, 0) < 0 && errno == EINTR) {}
  return WIFEXITED (st) ? WEXITSTATUS (st) : 128;
}

static std::string slurp (const std::string &p, size_t max = 3000) {
  FILE *f = fopen (p.c_str (), "r");
  if (!f) return "";
  std::string s (max, 0);
  s.resize (fread (&s[0], 1, max, f));
  fclose (f);
  return s;
}

typedef int64_t (*c_entry_t) (int64_t, int64_t, int64_t, double, void *);

static void check_case (const Case &c, Outcome &o) {
  // ---- translate (bounded CPU time: termination is part of the property)
  MIR_context_t ctx = MIR_init ();
  char *ctext = NULL;
  size_t clen = 0;
  if (setjmp (g_err_jb)) return o.fail ("C20:translator-error", strfmt ("library error %d while scanning / translating: %s", g_err_code, g_err_msg));
  MIR_set_error_func (ctx, err_func);
  MIR_scan_string (ctx, c.text.c_str ());
  MIR_module_t m = DLIST_TAIL (MIR_module_t, *MIR_get_module_list (ctx));
  FILE *mf = open_memstream (&ctext, &clen);
  struct sigaction sa = {};
  sa.sa_handler = on_vtalrm;
  sigaction (SIGVTALRM, &sa, NULL);
  struct itimerval tv = {{0, 0}, {10, 0}}, off = {{0, 0}, {0, 0}};
  if (sigsetjmp (g_alarm_jb, 1)) return o.fail ("C20:translator-does-not-terminate", "MIR_module2c used 10 s of CPU time on this module without finishing");
  setitimer (ITIMER_VIRTUAL, &tv, NULL);
  MIR_module2c (ctx, mf, m);
  setitimer (ITIMER_VIRTUAL, &off, NULL);
  fclose (mf);
  std::string csrc (ctext, clen);
  free (ctext);
  MIR_finish (ctx);
  // ---- compile
  std::string d = tmp_dir (), base = d + strfmt ("/c20_%d", (int) getpid ());
  std::string cf = base + ".c", so = base + ".so", ef = base + ".err";
  FILE *f = fopen (cf.c_str (), "w");
  fwrite (csrc.data (), 1, csrc.size (), f);
  fclose (f);
  // -O0: the translation is judged by what it says, not by how an optimiser reads it (one generated text with address-taken
  // labels and a switch of gotos behaved differently under gcc 12 -O1 only, while -O0 and -O2 agreed with the reference)
  const char *ol = harness_opt ("gccopt") ? harness_opt ("gccopt") : "-O0";
  int rc = run_cmd ({"gcc", ol, "-w", "-fwrapv", "-fno-strict-aliasing", "-fno-delete-null-pointer-checks", "-shared", "-fPIC", "-Dext_ii=c20_ext_ii",
                     "-Dext_d=c20_ext_d", "-Dext_mix=c20_ext_mix", "-Dext_ld=c20_ext_ld", "-Dext_many=c20_ext_many", "-o", so, cf},
                    ef);
  auto cleanup = [&] () { unlink (cf.c_str ()); unlink (so.c_str ()); unlink (ef.c_str ()); };
  if (rc != 0) {
    std::string err = slurp (ef, 1500);
    cleanup ();
    // signature: first `error:` message without positions and names
    std::string sig = "compile";
    size_t p = err.find ("error:");
    if (p != std::string::npos) {
      std::string msg = err.substr (p + 7, err.find ('\n', p) - p - 7);
      // drop quoted identifiers: the signature names the kind of error only
      std::string k;
      bool inq = false;
      for (char ch : msg) {
        if (ch == '\'') { inq = !inq; continue; }
        if (!inq && (unsigned char) ch < 0x80) k += ch == ' ' ? '_' : ch;
      }
      sig = k.substr (0, 40);
    }
    return o.fail ("C20:c-rejected:" + sig, "gcc does not accept the translation (exit " + std::to_string (rc) + "):\n" + err + "\n--- translation:\n" + csrc.substr (0, 6000));
  }
  void *h = dlopen (so.c_str (), RTLD_NOW | RTLD_LOCAL);
  if (!h) {
    std::string e = dlerror ();
    cleanup ();
    return o.fail ("C20:c-unresolved", "the compiled translation cannot be loaded: " + e);
  }
  c_entry_t ent = (c_entry_t) dlsym (h, "entry");
  if (!ent) { cleanup (); return o.fail ("C20:no-entry", "translation has no function entry"); }
  // ---- data sections: the object the translation defines for a section head holds the section's bytes, contiguously
  for (auto &mod : c.prog.mods) {
    size_t di = 0;
    while (di < mod.datas.size ()) {
      const DataItem &head = mod.datas[di];
      if (head.name.compare (0, 2, "ds") != 0) { di++; continue; }
      std::vector<uint8_t> img;
      std::vector<std::pair<size_t, int64_t>> refs;  // offset, disp of `ref entry` members
      size_t dj = di;
      do {
        const DataItem &d = mod.datas[dj];
        if (d.k == DataItem::BSS) img.insert (img.end (), d.len, 0);
        else if (d.k == DataItem::REF) { refs.push_back ({img.size (), d.disp}); img.insert (img.end (), 8, 0); }
        else img.insert (img.end (), d.bytes.begin (), d.bytes.end ());
        dj++;
      } while (dj < mod.datas.size () && mod.datas[dj].name.empty ());
      const uint8_t *obj = (const uint8_t *) dlsym (h, head.name.c_str ());
      if (!obj) { dlclose (h); cleanup (); return o.fail ("C20:data-missing", "the translation defines no object " + head.name); }
      for (auto &r : refs) {
        int64_t v = (int64_t) (intptr_t) ent + r.second;
        memcpy (&img[r.first], &v, 8);
      }
      if (memcmp (obj, img.data (), img.size ()) != 0) {
        size_t k = 0;
        while (obj[k] == img[k]) k++;
        std::string d = strfmt ("section %s (%zu bytes, %zu items): byte %zu is %02x, the MIR section has %02x", head.name.c_str (), img.size (), dj - di, k, obj[k], img[k]);
        dlclose (h);
        cleanup ();
        return o.fail (dj - di > 1 ? "C20:data-differs:multi-item-section" : "C20:data-differs:single-item", d + "\n--- translation:\n" + csrc.substr (0, 6000));
      }
      di = dj;
    }
  }
  uint8_t *buf = the_buffer ();
  std::string diff, kind;
  for (size_t i = 0; i < c.inputs.size () && diff.empty (); i++) {
    const Input &in = c.inputs[i];
    memcpy (buf, in.buf, MM_BUF_SIZE);
    g_native_log.clear ();
    Obs ob;
    ob.res_types = {MIR_T_I64};
    o.sample += strfmt ("[running the compiled translation on input %zu]\n", i);
    o.publish ();
    int64_t r = ent (in.depth, in.a0, in.a1, in.x0, buf);
    ob.results = {VI (r)};
    ob.log = g_native_log;
    ob.buf.assign (buf, buf + MM_BUF_SIZE);
    // bytes 10..15 of the four long double slots are padding: a C compiler may copy them along with the value
    for (size_t s0 = 192; s0 < MM_BUF_SIZE; s0 += 16)
      for (size_t k = 10; k < 16; k++) ob.buf[s0 + k] = c.ref[i].buf[s0 + k];
    diff = compare_obs (c.ref[i], ob);
    if (!diff.empty ()) {
      kind = diff.substr (0, diff.find_first_of (" :"));
      diff = strfmt ("input %zu: ", i) + diff;
    }
  }
  dlclose (h);
  cleanup ();
  if (diff.empty ()) return;
  // is the interpreter on the reference's side?
  std::string ik, id = check_engine (c, E_INTERP, ik);
  if (!id.empty ()) return o.disc ("interpreter disagrees with the reference evaluator too (a C01 matter): " + ik);
  o.fail ("C20:translation-differs:" + kind, "compiled translation: " + diff + "\n--- translation:\n" + csrc.substr (0, 12000));
}

static void case_fn (CS &cs, Outcome &o) {
  GenCfg base;
  base.single_result = true;
  base.multi_module = false;
  base.blk_args = false;
  base.max_funcs = 4;
  base.max_blocks = 4;
  base.const_branches = false;
  base.single_switch = false;
  base.force_calls = true;
  base.passive_data = true;
  if (known_excluded ("F45")) base.single_item_sections = true;
  base.call_weight = 5;
  g_min_depth = 0;
  Case c;
  if (!make_case (cs, base, c, o)) return;
  label_features (c, o);
  {
    size_t nd = 0;
    for (auto &m : c.prog.mods) nd += m.datas.size ();
    if (nd) o.label (nd > 1 ? "data_sections_2plus" : "data_section");
  }
  if (harness_opt ("reduce")) return reduce_and_report (c, check_case, o);
  o.publish ();
  check_case (c, o);
}

int main (int argc, char **argv) {
  HarnessCfg cfg = {};
  cfg.property = "C20";
  cfg.fn = case_fn;
  cfg.fork_per_case = true;
  cfg.timeout_s = 60;
  cfg.len_scale = 40;
  return harness_main (argc, argv, cfg);
}
