// C04 — link-time simplification and inlining never change what a program computes.
// The same harness is linked against three builds of mir.c: default inlining thresholds, inlining disabled
// (MIR_MAX_INSNS_FOR_INLINE=0) and practically unlimited inlining. The oracle is the reference evaluator, which
// executes the program as written (every call is a real call, every alloca its own block).
#include "progdiff.h"
using namespace pd;

static void check_case (const Case &c, Outcome &o) {
  static const Engine engines[] = {E_INTERP, E_GEN1};
  std::string bad, first_kind, first_diff, base_sample = o.sample;
  for (Engine e : engines) {
    o.sample = base_sample + "[engine being run: " + engine_names[e] + "]\n";
    o.publish ();
    std::string kind, d = check_engine (c, e, kind);
    if (!d.empty ()) {
      bad += std::string (bad.empty () ? "" : "+") + engine_names[e];
      if (first_diff.empty ()) first_kind = kind, first_diff = std::string (engine_names[e]) + ": " + d;
    }
  }
  o.sample = base_sample;
  if (!bad.empty ())
    o.fail ("C04:" + bad + ":" + first_kind, first_diff + "\n(engines disagreeing with the program as written: " + bad + "; inlined call sites: "
                                               + std::to_string (g_inlined_sites) + ")");
}

static void case_fn (CS &cs, Outcome &o) {
  GenCfg base;
  base.min_funcs = 2;
  base.force_calls = true;
  base.max_funcs = 6;
  base.max_blocks = 5;
  // small callees fall below the `call` threshold (50 insns), larger ones only below the `inline` one (200)
  base.max_insns = cs.flip () ? 4 : 12;
  base.multi_module = true;
  base.prologue_alloca = true;
  base.prologue_alloca_chance = 200;
  base.dump_allocas = true;
  base.first_block_calls = 3;
  base.forward_calls_chance = 200;
  base.multi_ret = true;
  base.ret_weight = 3;
  base.call_weight = cs.flip () ? 8 : 4;
  base.jmpi = false;  // label addresses block inlining of the callee only through lref data; jmpi is C01/C03 matter
  base.const_branches = false;
  base.single_switch = false;
  if (const char *v = harness_opt ("cw")) base.call_weight = atoi (v);
  g_min_depth = 1;
  g_max_depth = 3;  // caller -> inlined callee -> nested inlined callee needs two levels below the caller
  base.force_allocas = true;
  base.indirect = false;  // calls through a register are never inlined
  g_count_inlines = true;
  Case c;
  if (!make_case (cs, base, c, o)) return;
  label_features (c, o);
  int calls = 0;
  for (auto &st : c.stats) calls += (int) st.calls;
  bool executed_call = calls > (int) c.stats.size ();
  const char *variant = harness_opt ("variant") ? harness_opt ("variant") : "default";
  if (harness_opt ("reduce")) return reduce_and_report (c, check_case, o);
  o.publish ();
  check_case (c, o);
  if (g_inlined_sites > 0) o.label (g_inlined_sites >= 3 ? "inlined_3plus_call_sites" : "inlined_call_sites");
  else o.label ("nothing_inlined");
  // non-trivial: a generated function was called at run time and (unless inlining is compiled out) MIR_link inlined a call site
  o.nontrivial = executed_call && (strcmp (variant, "inl0") == 0 || g_inlined_sites > 0) && (c.feat.alloca || c.feat.multi_ret || c.feat.narrow || c.feat.blkarg || c.feat.multi_res);
}

int main (int argc, char **argv) {
  HarnessCfg cfg = {};
  cfg.property = "C04";
  cfg.fn = case_fn;
  cfg.fork_per_case = true;
  cfg.timeout_s = 20;
  cfg.len_scale = 40;
  return harness_main (argc, argv, cfg);
}
