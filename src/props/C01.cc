// C01 — generated machine code ≡ interpreter ≡ reference evaluator at -O0..-O3.
#include "progdiff.h"
using namespace pd;

static void check_case (const Case &c, Outcome &o);

static void case_fn (CS &cs, Outcome &o) {
  GenCfg base;
  base.max_funcs = 3;
  if (known_excluded ("F17")) base.jmpi = false; /* known finding: edge splitting cannot handle jmpi edges */
  if (known_excluded ("F21")) base.const_branches = false; /* known finding: GVN use-after-free when it folds constant branches */
  if (known_excluded ("F22")) base.single_switch = false;  /* known finding: edge split of a one-target switch */
  base.ext_chains = true;
  if (known_excluded ("F62")) base.fp_mem_no_base_index = true; /* known finding: reload register exhaustion */
  Case c;
  if (!make_case (cs, base, c, o)) return;
  label_features (c, o);
  o.publish ();
  if (harness_opt ("reduce")) {
    reduce_and_report (c, check_case, o);
    return;
  }
  check_case (c, o);
}

static void check_case (const Case &c, Outcome &o) {
  static const Engine engines[] = {E_INTERP, E_GEN0, E_GEN1, E_GEN2, E_GEN3};
  std::string bad_engines, first_kind, first_diff;
  std::string base_sample = o.sample;
  for (Engine e : engines) {
    o.sample = base_sample + "[engine being run: " + engine_names[e] + "]\n";
    o.publish (); /* a crash is then attributed to this engine */
    std::string kind, d = check_engine (c, e, kind);
    if (!d.empty ()) {
      bad_engines += std::string (bad_engines.empty () ? "" : "+") + engine_names[e];
      if (first_diff.empty ()) {
        first_kind = kind;
        first_diff = std::string (engine_names[e]) + ": " + d;
      }
    }
  }
  o.sample = base_sample;
  if (!bad_engines.empty ()) o.fail ("C01:" + bad_engines + ":" + first_kind, first_diff + "\n(engines disagreeing with the reference evaluator: " + bad_engines + ")");
}

int main (int argc, char **argv) {
  HarnessCfg cfg = {};
  cfg.property = "C01";
  cfg.fn = case_fn;
  cfg.fork_per_case = true;
  cfg.timeout_s = 20;
  cfg.len_scale = 30;
  return harness_main (argc, argv, cfg);
}
