// C15 — ill-formed IR is rejected through the error callback, well-formed IR is accepted.
// Exhaustive: opcode x operand position x operand kind, against an expectation table derived from
// MIR.md naming rules (NOT from insn_descs), plus arity / declaration / ret / call / flag-branch probes.
#include "../mirmodel/model.h"
#include <setjmp.h>
#include <stdarg.h>
using namespace mm;

static jmp_buf g_jb;
static int g_err_code;
static char g_err_msg[512];
static void MIR_NO_RETURN err_func (MIR_error_type_t t, const char *fmt, ...) {
  va_list ap;
  va_start (ap, fmt);
  vsnprintf (g_err_msg, sizeof (g_err_msg), fmt, ap);
  va_end (ap);
  g_err_code = (int) t;
  longjmp (g_jb, 1);
}

// ---- expectation table from naming rules ------------------------------------------------------
// classes: I int in, i int out, F/f, D/d, L/l, B label, R any register (addr), M memory of any type (va_arg)
static std::string expected_classes (int code) {
  std::string n = insn_name (code);
  auto starts = [&] (const char *p) { return n.compare (0, strlen (p), p) == 0; };
  switch (code) {
  case MIR_MOV: return "iI";
  case MIR_FMOV: return "fF";
  case MIR_DMOV: return "dD";
  case MIR_LDMOV: return "lL";
  case MIR_ADDR: case MIR_ADDR8: case MIR_ADDR16: case MIR_ADDR32: return "iR";
  case MIR_JMP: return "B";
  case MIR_BT: case MIR_BF: case MIR_BTS: case MIR_BFS: return "BI";
  case MIR_BO: case MIR_UBO: case MIR_BNO: case MIR_UBNO: return "B";
  case MIR_LADDR: return "iB";
  case MIR_JMPI: return "I";
  case MIR_ALLOCA: return "iI";
  case MIR_BSTART: return "i";
  case MIR_BEND: return "I";
  case MIR_VA_ARG: return "iIM";
  case MIR_VA_BLOCK_ARG: return "IIII"; /* MIR.md: operand 1 is the address the block is moved TO: an input */
  case MIR_VA_START: case MIR_VA_END: return "I";
  default: break;
  }
  // conversions: two-letter spelling <from>2<to>
  size_t p2 = n.find ('2');
  if (p2 != std::string::npos && code >= MIR_I2F && code <= MIR_LD2D) {
    std::string from = n.substr (0, p2), to = n.substr (p2 + 1);
    auto in = [] (const std::string &s) { return s == "f" ? 'F' : s == "d" ? 'D' : s == "ld" ? 'L' : 'I'; };
    auto out = [] (const std::string &s) { return s == "f" ? 'f' : s == "d" ? 'd' : s == "ld" ? 'l' : 'i'; };
    return std::string (1, out (to)) + in (from);
  }
  if (code >= MIR_EXT8 && code <= MIR_UEXT32) return "iI";
  // operand type from the prefix: LD, F, D (careful: "div", "dlt"...: the D prefix names are listed by range)
  char t = 'I';
  bool fp_named = false;
  static const int fcodes[] = {MIR_FNEG, MIR_FADD, MIR_FSUB, MIR_FMUL, MIR_FDIV, MIR_FEQ, MIR_FNE, MIR_FLT, MIR_FLE, MIR_FGT, MIR_FGE,
                               MIR_FBEQ, MIR_FBNE, MIR_FBLT, MIR_FBLE, MIR_FBGT, MIR_FBGE};
  static const int dcodes[] = {MIR_DNEG, MIR_DADD, MIR_DSUB, MIR_DMUL, MIR_DDIV, MIR_DEQ, MIR_DNE, MIR_DLT, MIR_DLE, MIR_DGT, MIR_DGE,
                               MIR_DBEQ, MIR_DBNE, MIR_DBLT, MIR_DBLE, MIR_DBGT, MIR_DBGE};
  for (int c : fcodes) if (c == code) t = 'F', fp_named = true;
  for (int c : dcodes) if (c == code) t = 'D', fp_named = true;
  if (starts ("ld")) t = 'L', fp_named = true;
  (void) fp_named;
  char outc = t == 'F' ? 'f' : t == 'D' ? 'd' : t == 'L' ? 'l' : 'i';
  if (code == MIR_NEG || code == MIR_NEGS || code == MIR_FNEG || code == MIR_DNEG || code == MIR_LDNEG) return std::string (1, outc) + t;
  if (code >= MIR_BEQ && code <= MIR_LDBGE) return std::string ("B") + t + t;
  if (code >= MIR_EQ && code <= MIR_LDGE) return std::string ("i") + t + t;  // comparisons yield an integer
  if (code >= MIR_ADD && code <= MIR_UMULOS) return std::string (1, outc) + t + t;
  return "";
}

// ---- operand kinds ----------------------------------------------------------------------------
enum Kind { K_IREG, K_FREG, K_DREG, K_LDREG, K_INT, K_UINT, K_FLT, K_DBL, K_LDBL, K_MEM_I8, K_MEM_U8, K_MEM_I16, K_MEM_U16, K_MEM_I32,
            K_MEM_U32, K_MEM_I64, K_MEM_U64, K_MEM_F, K_MEM_D, K_MEM_LD, K_MEM_P, K_MEM_BLK, K_MEM_RBLK, K_LABEL, K_REF_FUNC, K_REF_PROTO,
            K_REF_DATA, K_REF_IMPORT, K_STR, K_NKINDS };
static const char *kind_names[] = {"int-reg", "f-reg", "d-reg", "ld-reg", "int-imm", "uint-imm", "f-imm", "d-imm", "ld-imm", "mem:i8", "mem:u8",
                                   "mem:i16", "mem:u16", "mem:i32", "mem:u32", "mem:i64", "mem:u64", "mem:f", "mem:d", "mem:ld", "mem:p",
                                   "mem:blk", "mem:rblk", "label", "ref-func", "ref-proto", "ref-data", "ref-import", "string"};

static bool kind_int_mem (int k) { return (k >= K_MEM_I8 && k <= K_MEM_U64) || k == K_MEM_P; }
static bool expect_accept (char cls, int k) {
  switch (cls) {
  case 'I': return k == K_IREG || k == K_INT || k == K_UINT || kind_int_mem (k) || (k >= K_REF_FUNC && k <= K_REF_IMPORT) || k == K_STR;
  case 'i': return k == K_IREG || kind_int_mem (k);
  case 'F': return k == K_FREG || k == K_FLT || k == K_MEM_F;
  case 'f': return k == K_FREG || k == K_MEM_F;
  case 'D': return k == K_DREG || k == K_DBL || k == K_MEM_D;
  case 'd': return k == K_DREG || k == K_MEM_D;
  case 'L': return k == K_LDREG || k == K_LDBL || k == K_MEM_LD;
  case 'l': return k == K_LDREG || k == K_MEM_LD;
  case 'B': return k == K_LABEL;
  case 'R': return k == K_IREG || k == K_FREG || k == K_DREG || k == K_LDREG;
  case 'M': return k >= K_MEM_I8 && k <= K_MEM_RBLK; /* MIR.md: va_arg takes 'any memory operand' */
  }
  return false;
}

struct Env {
  MIR_context_t ctx;
  MIR_item_t func, proto, data, import;
  MIR_reg_t ri, ri2, rf, rf2, rd, rd2, rl, rl2;
  MIR_label_t label;
};

static void make_env (Env &e, bool vararg) {
  e.ctx = MIR_init ();
  MIR_set_error_func (e.ctx, err_func);
  MIR_new_module (e.ctx, "m");
  MIR_type_t rt = MIR_T_I64;
  e.proto = MIR_new_proto (e.ctx, "pr", 1, &rt, 1, MIR_T_I64, "x");
  e.import = MIR_new_import (e.ctx, "imp");
  int64_t v = 5;
  e.data = MIR_new_data (e.ctx, "dat", MIR_T_I64, 1, &v);
  e.func = vararg ? MIR_new_vararg_func (e.ctx, "f", 0, NULL, 1, MIR_T_I64, "arg")
                  : MIR_new_func (e.ctx, "f", 0, NULL, 1, MIR_T_I64, "arg");
  MIR_func_t f = e.func->u.func;
  e.ri = MIR_new_func_reg (e.ctx, f, MIR_T_I64, "ri");
  e.ri2 = MIR_new_func_reg (e.ctx, f, MIR_T_I64, "ri2");
  e.rf = MIR_new_func_reg (e.ctx, f, MIR_T_F, "rf");
  e.rf2 = MIR_new_func_reg (e.ctx, f, MIR_T_F, "rf2");
  e.rd = MIR_new_func_reg (e.ctx, f, MIR_T_D, "rd");
  e.rd2 = MIR_new_func_reg (e.ctx, f, MIR_T_D, "rd2");
  e.rl = MIR_new_func_reg (e.ctx, f, MIR_T_LD, "rl");
  e.rl2 = MIR_new_func_reg (e.ctx, f, MIR_T_LD, "rl2");
  e.label = MIR_new_label (e.ctx);
}

static MIR_op_t kind_op (Env &e, int k) {
  MIR_context_t c = e.ctx;
  switch (k) {
  case K_IREG: return MIR_new_reg_op (c, e.ri2);
  case K_FREG: return MIR_new_reg_op (c, e.rf2);
  case K_DREG: return MIR_new_reg_op (c, e.rd2);
  case K_LDREG: return MIR_new_reg_op (c, e.rl2);
  case K_INT: return MIR_new_int_op (c, 5);
  case K_UINT: return MIR_new_uint_op (c, 5);
  case K_FLT: return MIR_new_float_op (c, 1.5f);
  case K_DBL: return MIR_new_double_op (c, 1.5);
  case K_LDBL: return MIR_new_ldouble_op (c, 1.5L);
  case K_LABEL: return MIR_new_label_op (c, e.label);
  case K_REF_FUNC: return MIR_new_ref_op (c, e.func);
  case K_REF_PROTO: return MIR_new_ref_op (c, e.proto);
  case K_REF_DATA: return MIR_new_ref_op (c, e.data);
  case K_REF_IMPORT: return MIR_new_ref_op (c, e.import);
  case K_STR: {
    MIR_str_t s = {4, "abc"};
    return MIR_new_str_op (c, s);
  }
  default: {
    static const MIR_type_t t[] = {MIR_T_I8, MIR_T_U8, MIR_T_I16, MIR_T_U16, MIR_T_I32, MIR_T_U32, MIR_T_I64, MIR_T_U64, MIR_T_F, MIR_T_D,
                                   MIR_T_LD, MIR_T_P, MIR_T_BLK, MIR_T_RBLK};
    return MIR_new_mem_op (c, t[k - K_MEM_I8], 16, e.ri2, 0, 1);
  }
  }
}
static MIR_op_t valid_op (Env &e, char cls) {
  MIR_context_t c = e.ctx;
  switch (cls) {
  case 'I': return MIR_new_reg_op (c, e.ri);
  case 'i': return MIR_new_reg_op (c, e.ri);
  case 'F': case 'f': return MIR_new_reg_op (c, e.rf);
  case 'D': case 'd': return MIR_new_reg_op (c, e.rd);
  case 'L': case 'l': return MIR_new_reg_op (c, e.rl);
  case 'B': return MIR_new_label_op (c, e.label);
  case 'R': return MIR_new_reg_op (c, e.ri);
  default: return MIR_new_mem_op (c, MIR_T_I64, 16, e.ri, 0, 1);
  }
}

// returns 0 accepted, >0 = error code+1 of the callback
static int probe_insn (int code, const std::string &cls, int pos, int kind, int arity_delta) {
  Env e;
  volatile int result = 0;
  if (setjmp (g_jb)) return g_err_code + 1;
  bool need_vararg = code == MIR_VA_START || code == MIR_VA_ARG || code == MIR_VA_BLOCK_ARG || code == MIR_VA_END;
  make_env (e, need_vararg);
  // a well-formed prefix: flag branches need an overflow insn right before
  if (code == MIR_BO || code == MIR_UBO || code == MIR_BNO || code == MIR_UBNO)
    MIR_append_insn (e.ctx, e.func,
                     MIR_new_insn (e.ctx, (code == MIR_BO || code == MIR_BNO) ? MIR_ADDO : MIR_UMULO, MIR_new_reg_op (e.ctx, e.ri),
                                   MIR_new_reg_op (e.ctx, e.ri), MIR_new_reg_op (e.ctx, e.ri2)));
  std::vector<MIR_op_t> ops;
  for (size_t p = 0; p < cls.size (); p++) ops.push_back ((int) p == pos ? kind_op (e, kind) : valid_op (e, cls[p]));
  if (arity_delta < 0) ops.pop_back ();
  if (arity_delta > 0) ops.push_back (MIR_new_reg_op (e.ctx, e.ri));
  MIR_insn_t insn = MIR_new_insn_arr (e.ctx, (MIR_insn_code_t) code, ops.size (), ops.data ());
  MIR_append_insn (e.ctx, e.func, insn);
  MIR_append_insn (e.ctx, e.func, e.label);
  MIR_append_insn (e.ctx, e.func, MIR_new_ret_insn (e.ctx, 0));
  MIR_finish_func (e.ctx);
  MIR_finish_module (e.ctx);
  MIR_finish (e.ctx);
  return result;
}

static std::vector<int> g_codes;
static void init () {
  for (int c = 0; c < MIR_LABEL; c++) {
    if (c == MIR_CALL || c == MIR_INLINE || c == MIR_JCALL || c == MIR_SWITCH || c == MIR_RET || c == MIR_JRET) continue;
    if (!expected_classes (c).empty ()) g_codes.push_back (c);
  }
}

// ---- special probes: declarations, ret, call, flag branch adjacency ------------------------------------------------
// each returns expected (true = must be rejected) through `reject`, and the observed error code+1 (0 accepted)
static int special_probe (int which, int variant, bool &reject, std::string &desc) {
  Env e;
  if (setjmp (g_jb)) return g_err_code + 1;
  MIR_context_t c;
  switch (which) {
  case 0: {  // register declarations
    make_env (e, false);
    c = e.ctx;
    MIR_func_t f = e.func->u.func;
    static const struct { const char *name; MIR_type_t t; bool rej; const char *d; } v[] = {
      {"ri", MIR_T_I64, true, "redeclared register name"}, {"arg", MIR_T_I64, true, "register named like an argument"},
      {"t5", MIR_T_I64, false, "t<number> name (documented as reserved, handled by the temp-name allocator: accepted)"}, {"fresh", MIR_T_I64, false, "new i64 register"},
      {"fresh2", MIR_T_D, false, "new d register"}, {"n32", MIR_T_I32, true, "local of type i32"}, {"nb", MIR_T_BLK, true, "local of type blk"},
      {"np", MIR_T_P, true, "local of type p"}, {"nu", MIR_T_U64, true, "local of type u64"}, {"hr0", MIR_T_I64, true, "reserved name hr0"}};
    const auto &x = v[variant % 10];
    reject = x.rej;
    desc = std::string ("MIR_new_func_reg: ") + x.d;
    MIR_new_func_reg (c, f, x.t, x.name);
    MIR_append_insn (c, e.func, MIR_new_ret_insn (c, 0));
    MIR_finish_func (c);
    break;
  }
  case 1: {  // use of an undeclared register number
    make_env (e, false);
    c = e.ctx;
    reject = true;
    desc = "operand with an undeclared register number";
    MIR_append_insn (c, e.func, MIR_new_insn (c, MIR_MOV, MIR_new_reg_op (c, e.ri), MIR_new_reg_op (c, 9999)));
    MIR_append_insn (c, e.func, MIR_new_ret_insn (c, 0));
    MIR_finish_func (c);
    break;
  }
  case 2: {  // ret arity / type against function results
    c = MIR_init ();
    MIR_set_error_func (c, err_func);
    MIR_new_module (c, "m");
    MIR_type_t rts[2] = {MIR_T_I64, MIR_T_D};
    MIR_item_t fi = MIR_new_func (c, "f", 2, rts, 0);
    MIR_reg_t ri = MIR_new_func_reg (c, fi->u.func, MIR_T_I64, "ri"), rd = MIR_new_func_reg (c, fi->u.func, MIR_T_D, "rd");
    MIR_append_insn (c, fi, MIR_new_insn (c, MIR_MOV, MIR_new_reg_op (c, ri), MIR_new_int_op (c, 1)));
    MIR_append_insn (c, fi, MIR_new_insn (c, MIR_DMOV, MIR_new_reg_op (c, rd), MIR_new_double_op (c, 1.0)));
    switch (variant % 6) {
    case 0: reject = false; desc = "ret i64,d matching"; MIR_append_insn (c, fi, MIR_new_ret_insn (c, 2, MIR_new_reg_op (c, ri), MIR_new_reg_op (c, rd))); break;
    case 1: reject = true; desc = "ret with one value for two results"; MIR_append_insn (c, fi, MIR_new_ret_insn (c, 1, MIR_new_reg_op (c, ri))); break;
    case 2: reject = true; desc = "ret with three values for two results"; MIR_append_insn (c, fi, MIR_new_ret_insn (c, 3, MIR_new_reg_op (c, ri), MIR_new_reg_op (c, rd), MIR_new_reg_op (c, ri))); break;
    case 3: reject = true; desc = "ret d,i64 for results i64,d"; MIR_append_insn (c, fi, MIR_new_ret_insn (c, 2, MIR_new_reg_op (c, rd), MIR_new_reg_op (c, ri))); break;
    case 4: reject = true; desc = "ret with no value for two results"; MIR_append_insn (c, fi, MIR_new_ret_insn (c, 0)); break;
    default: reject = false; desc = "ret imm, d-imm matching i64,d"; MIR_append_insn (c, fi, MIR_new_ret_insn (c, 2, MIR_new_int_op (c, 3), MIR_new_double_op (c, 2.0))); break;
    }
    MIR_finish_func (c);
    break;
  }
  case 3: {  // call against prototype
    make_env (e, false);
    c = e.ctx;
    MIR_op_t pr = MIR_new_ref_op (c, e.proto), fn = MIR_new_ref_op (c, e.import), r = MIR_new_reg_op (c, e.ri), a = MIR_new_reg_op (c, e.ri2);
    switch (variant % 8) {
    case 0: reject = false; desc = "call matching proto (i64 res, i64 arg)"; MIR_append_insn (c, e.func, MIR_new_call_insn (c, 4, pr, fn, r, a)); break;
    case 1: reject = true; desc = "call with a missing argument"; MIR_append_insn (c, e.func, MIR_new_call_insn (c, 3, pr, fn, r)); break;
    case 2: reject = true; desc = "call with an extra argument (non-vararg proto)"; MIR_append_insn (c, e.func, MIR_new_call_insn (c, 5, pr, fn, r, a, a)); break;
    case 3: reject = true; desc = "call whose first operand is not a prototype"; MIR_append_insn (c, e.func, MIR_new_call_insn (c, 4, fn, fn, r, a)); break;
    case 4: reject = true; desc = "call with a double register for an i64 result"; MIR_append_insn (c, e.func, MIR_new_call_insn (c, 4, pr, fn, MIR_new_reg_op (c, e.rd), a)); break;
    case 5: reject = true; desc = "call with a double argument for an i64 parameter"; MIR_append_insn (c, e.func, MIR_new_call_insn (c, 4, pr, fn, r, MIR_new_reg_op (c, e.rd))); break;
    case 6: reject = true; desc = "call with an immediate as result operand"; MIR_append_insn (c, e.func, MIR_new_call_insn (c, 4, pr, fn, MIR_new_int_op (c, 1), a)); break;
    default: reject = false; desc = "inline matching proto"; { MIR_op_t o4[4] = {pr, fn, r, a}; MIR_append_insn (c, e.func, MIR_new_insn_arr (c, MIR_INLINE, 4, o4)); } break;
    }
    MIR_append_insn (c, e.func, MIR_new_ret_insn (c, 0));
    MIR_finish_func (c);
    break;
  }
  case 4: {  // vararg prototype / block arguments
    c = MIR_init ();
    MIR_set_error_func (c, err_func);
    MIR_new_module (c, "m");
    MIR_type_t rt = MIR_T_I64;
    MIR_var_t pv[2] = {{MIR_T_I64, "fmt", 0}, {MIR_T_BLK, "b", 24}};
    MIR_item_t vp = MIR_new_vararg_proto_arr (c, "vp", 1, &rt, 1, pv);
    MIR_item_t bp = MIR_new_proto_arr (c, "bp", 0, NULL, 2, pv);
    MIR_item_t imp = MIR_new_import (c, "imp");
    MIR_item_t fi = MIR_new_func (c, "f", 0, NULL, 0);
    MIR_reg_t ri = MIR_new_func_reg (c, fi->u.func, MIR_T_I64, "ri");
    MIR_append_insn (c, fi, MIR_new_insn (c, MIR_MOV, MIR_new_reg_op (c, ri), MIR_new_int_op (c, 0)));
    MIR_op_t r = MIR_new_reg_op (c, ri);
    switch (variant % 7) {
    case 0: reject = false; desc = "vararg call with the fixed argument only"; MIR_append_insn (c, fi, MIR_new_call_insn (c, 4, MIR_new_ref_op (c, vp), MIR_new_ref_op (c, imp), r, r)); break;
    case 1: reject = false; desc = "vararg call with extra arguments"; MIR_append_insn (c, fi, MIR_new_call_insn (c, 6, MIR_new_ref_op (c, vp), MIR_new_ref_op (c, imp), r, r, r, MIR_new_double_op (c, 1.0))); break;
    case 2: reject = true; desc = "vararg call missing its fixed argument"; MIR_append_insn (c, fi, MIR_new_call_insn (c, 3, MIR_new_ref_op (c, vp), MIR_new_ref_op (c, imp), r)); break;
    case 3: reject = true; desc = "vararg call missing result and fixed argument"; MIR_append_insn (c, fi, MIR_new_call_insn (c, 2, MIR_new_ref_op (c, vp), MIR_new_ref_op (c, imp))); break;
    case 4: reject = false; desc = "block argument with matching type and size"; MIR_append_insn (c, fi, MIR_new_call_insn (c, 4, MIR_new_ref_op (c, bp), MIR_new_ref_op (c, imp), r, MIR_new_mem_op (c, MIR_T_BLK, 24, ri, 0, 1))); break;
    case 5: reject = true; desc = "block argument with a different size"; MIR_append_insn (c, fi, MIR_new_call_insn (c, 4, MIR_new_ref_op (c, bp), MIR_new_ref_op (c, imp), r, MIR_new_mem_op (c, MIR_T_BLK, 16, ri, 0, 1))); break;
    default: reject = true; desc = "block argument with a different block type"; MIR_append_insn (c, fi, MIR_new_call_insn (c, 4, MIR_new_ref_op (c, bp), MIR_new_ref_op (c, imp), r, MIR_new_mem_op (c, (MIR_type_t) (MIR_T_BLK + 1), 24, ri, 0, 1))); break;
    }
    MIR_append_insn (c, fi, MIR_new_ret_insn (c, 0));
    MIR_finish_func (c);
    break;
  }
  case 5: {  // flag branch adjacency and signedness
    make_env (e, false);
    c = e.ctx;
    MIR_op_t r = MIR_new_reg_op (c, e.ri), a = MIR_new_reg_op (c, e.ri2), l = MIR_new_label_op (c, e.label);
    MIR_append_insn (c, e.func, MIR_new_insn (c, MIR_MOV, a, MIR_new_int_op (c, 1)));
    static const struct { int first, br; bool rej; const char *d; } v[] = {
      {MIR_ADDO, MIR_BO, false, "addo; bo"}, {MIR_ADDO, MIR_UBO, false, "addo; ubo"}, {MIR_ADD, MIR_BO, true, "add; bo (no overflow insn before)"},
      {MIR_MULO, MIR_UBO, true, "mulo; ubo (unsigned branch after signed mul)"}, {MIR_UMULO, MIR_BNO, true, "umulo; bno (signed branch after unsigned mul)"},
      {MIR_UMULOS, MIR_UBNO, false, "umulos; ubno"}, {MIR_MOV, MIR_BNO, true, "mov; bno"}, {MIR_SUBOS, MIR_UBNO, false, "subos; ubno"}};
    const auto &x = v[variant % 8];
    reject = x.rej;
    desc = x.d;
    if (x.first == MIR_MOV) MIR_append_insn (c, e.func, MIR_new_insn (c, MIR_MOV, r, a));
    else MIR_append_insn (c, e.func, MIR_new_insn (c, (MIR_insn_code_t) x.first, r, a, a));
    MIR_append_insn (c, e.func, MIR_new_insn (c, (MIR_insn_code_t) x.br, l));
    MIR_append_insn (c, e.func, e.label);
    MIR_append_insn (c, e.func, MIR_new_ret_insn (c, 0));
    MIR_finish_func (c);
    break;
  }
  default: {  // va_start in a non-vararg function
    make_env (e, variant & 1);
    c = e.ctx;
    reject = !(variant & 1);
    desc = reject ? "va_start in a non-vararg function" : "va_start in a vararg function";
    MIR_append_insn (c, e.func, MIR_new_insn (c, MIR_VA_START, MIR_new_reg_op (c, e.ri)));
    MIR_append_insn (c, e.func, MIR_new_ret_insn (c, 0));
    MIR_finish_func (c);
    break;
  }
  }
  return 0;
}

static void case_fn (CS &cs, Outcome &o) {
  int mode = cs.weighted ({6, 2, 1});
  if (mode == 1) {
    int which = (int) cs.range (0, 6), variant = (int) cs.range (0, 15);
    bool reject = false;
    std::string desc;
    int r = special_probe (which, variant, reject, desc);
    o.sample = strfmt ("special probe %d/%d: %s -> %s", which, variant, desc.c_str (), r ? strfmt ("error %d (%s)", r - 1, g_err_msg).c_str () : "accepted");
    o.hash = fnv1a_s (strfmt ("sp%d/%d", which, variant % 16));
    o.label ("special_probe");
    o.nontrivial = true;
    if (reject && r == 0) o.fail ("C15:accepted:" + desc, "ill-formed construct accepted: " + desc);
    if (!reject && r != 0) o.fail ("C15:rejected:" + desc, strfmt ("well-formed construct rejected (%s): ", g_err_msg) + desc);
    return;
  }
  int code = g_codes[cs.range (0, g_codes.size () - 1)];
  std::string cls = expected_classes (code);
  if (mode == 2) {  // arity -1 / +1
    int delta = cs.flip () ? 1 : -1;
    int r = probe_insn (code, cls, -1, 0, delta);
    o.sample = strfmt ("%s with %zu%+d operands -> %s", insn_name (code), cls.size (), delta, r ? "error" : "accepted");
    o.hash = fnv1a_s (o.sample);
    o.label ("arity_probe");
    o.nontrivial = true;
    if (r == 0) o.fail (strfmt ("C15:%s:arity%+d:accepted", insn_name (code), delta), o.sample);
    return;
  }
  // all positions x all kinds for this opcode
  std::string s = strfmt ("%s [%s]:", insn_name (code), cls.c_str ());
  int nrej = 0, nacc = 0;
  for (size_t pos = 0; pos < cls.size (); pos++)
    for (int k = 0; k < K_NKINDS; k++) {
      bool acc = expect_accept (cls[pos], k);
      o.sample = s + strfmt (" probing pos %zu kind %s", pos, kind_names[k]);
      o.publish ();
      int r = probe_insn (code, cls, (int) pos, k, 0);
      if (acc && r != 0) {
        o.fail (strfmt ("C15:%s:pos%zu:%s:rejected", insn_name (code), pos, kind_names[k]),
                strfmt ("%s: operand %zu of kind %s is allowed by MIR.md but the error function was called (code %d: %s)", insn_name (code), pos,
                        kind_names[k], r - 1, g_err_msg));
        return;
      }
      if (!acc && r == 0) {
        o.fail (strfmt ("C15:%s:pos%zu:%s:accepted", insn_name (code), pos, kind_names[k]),
                strfmt ("%s: operand %zu of kind %s must be rejected but was accepted silently", insn_name (code), pos, kind_names[k]));
        return;
      }
      if (acc) nacc++;
      else nrej++;
    }
  o.sample = s + strfmt (" %d kinds accepted, %d rejected as expected", nacc, nrej);
  o.hash = fnv1a_s (insn_name (code));
  o.label ("opcode_matrix");
  o.nontrivial = true;
}

static void enumerate (int) {
  int shard = 0, nshards = 1;
  if (const char *s = harness_opt ("shard")) sscanf (s, "%d/%d", &shard, &nshards);
  uint64_t idx = 0;
  for (size_t i = 0; i < g_codes.size (); i++, idx++) {
    if ((int) (idx % nshards) != shard) continue;
    run_one ({0, (uint8_t) i});  // mode 0 (weighted {6,2,1}: byte 0), opcode i
    run_one ({8, (uint8_t) i, 0});
    run_one ({8, (uint8_t) i, 1});
  }
  for (int which = 0; which < 7; which++)
    for (int variant = 0; variant < 16; variant++, idx++) {
      if ((int) (idx % nshards) != shard) continue;
      run_one ({6, (uint8_t) which, (uint8_t) variant});
    }
}

int main (int argc, char **argv) {
  HarnessCfg cfg = {};
  cfg.property = "C15";
  cfg.fn = case_fn;
  cfg.fork_per_case = true;
  cfg.timeout_s = 30;
  cfg.len_scale = 1;
  cfg.enumerate = enumerate;
  cfg.init = init;
  return harness_main (argc, argv, cfg);
}
