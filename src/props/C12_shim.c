/* C shim: compiles mir-reduce.h as C (its own language) under ASan+UBSan. */
#include <stddef.h>
#include <stdint.h>
#include <string.h>
#include <stdlib.h>

/* memcpy inside the decoder may be handed overlapping ranges by a damaged stream. Overlap is
   *inside* the decoder's buffers, so it is not part of the property; a byte loop compiled in this
   (instrumented) TU keeps every out-of-buffer access visible to ASan while making overlap defined. */
size_t c12_overlap_copies;
static inline void *verif_memcpy (void *d, const void *s, size_t n) {
  unsigned char *dd = (unsigned char *) d;
  const unsigned char *ss = (const unsigned char *) s;
  if (n != 0 && dd != ss && dd < ss + n && ss < dd + n) c12_overlap_copies++;
  for (size_t i = 0; i < n; i++) dd[i] = ss[i];
  return d;
}
#define memcpy verif_memcpy
#include "mir-reduce.h"
#undef memcpy

/* Allocator handed to the API (MIR_alloc_t). Two jobs:
   - fill fresh memory with a generated pattern: reads of the decoder's not-yet-written tables
     then see a chosen, reproducible value instead of heap leftovers;
   - serve the single 1.3 MB reduce_data block from a static arena with manually poisoned 1 MiB
     red zones on both sides (ASan's large-chunk path costs an mmap/munmap per call, which made
     a decode ~30x slower); out-of-block accesses within 1 MiB are ASan reports, wilder ones fault. */
#include <sanitizer/asan_interface.h>
#define ARENA_RZ (1u << 20)
#define ARENA_BLK (3u << 19)
static uint8_t arena[ARENA_RZ + ARENA_BLK + ARENA_RZ] __attribute__ ((aligned (64)));
static int arena_used = 0, arena_init = 0;
uint8_t c12_fill = 0;
static void *fa_malloc (size_t n, void *u) {
  (void) u;
  if (!arena_init) {
    arena_init = 1;
    __asan_poison_memory_region (arena, sizeof (arena));
  }
  if (!arena_used && n <= ARENA_BLK) {
    /* right-align so that the end of the struct (buf[]) touches the red zone */
    uint8_t *p = arena + ARENA_RZ + ((ARENA_BLK - n) & ~(size_t) 15);
    arena_used = 1;
    __asan_unpoison_memory_region (p, n);
    memset (p, c12_fill, n);
    return p;
  }
  void *p = malloc (n);
  if (p) memset (p, c12_fill, n);
  return p;
}
static void *fa_calloc (size_t a, size_t b, void *u) { (void) u; return calloc (a, b); }
static void *fa_realloc (void *p, size_t o, size_t n, void *u) { (void) u; (void) o; return realloc (p, n); }
static void fa_free (void *p, void *u) {
  (void) u;
  if ((uint8_t *) p >= arena && (uint8_t *) p < arena + sizeof (arena)) {
    __asan_poison_memory_region (arena, sizeof (arena));
    arena_used = 0;
    return;
  }
  free (p);
}
static struct MIR_alloc c12_alloc = {fa_malloc, fa_calloc, fa_realloc, fa_free, NULL};

int c12_encode (reduce_reader_t rd, reduce_writer_t wr, void *aux) {
  return reduce_encode (&c12_alloc, rd, wr, aux);
}
int c12_decode (reduce_reader_t rd, reduce_writer_t wr, void *aux) {
  return reduce_decode (&c12_alloc, rd, wr, aux);
}
