// MIR programs as data: structures + text emitter (independent of MIR_output).
#pragma once
#include <stdint.h>
#include <string.h>
#include <math.h>
#include <string>
#include <vector>
#include <map>
extern "C" {
#include "mir.h"
}
#include "../common/runner.h"

namespace mm {

// register classes (see DESIGN §3.1): they make "identical observations" a sound demand
enum RC { W64, W32, ADDR, LABV, FR, DR, LDR };
static inline bool rc_int (RC c) { return c <= LABV; }
static inline const char *rc_type (RC c) { return c == FR ? "f" : c == DR ? "d" : c == LDR ? "ld" : "i64"; }

struct Reg {
  RC rc;
  std::string name;
};

struct Mem {
  int type = MIR_T_I64;
  int base = -1, index = -1;  // register indexes, -1 = none
  int scale = 1;
  int64_t disp = 0;
  int alias = 0, nonalias = 0;  // 0 = none, else alias name number
};

struct Op {
  enum K { NONE, REG, INT, UINT, FLT, DBL, LDBL, MEM, LAB, REF, STR } k = NONE;
  int reg = -1;
  int64_t i = 0;
  float f = 0;
  double d = 0;
  long double ld = 0;
  Mem m;
  int lab = -1;
  std::string ref;  // item name (func, proto, import, data)
  static Op R (int r) { Op o; o.k = REG; o.reg = r; return o; }
  static Op I (int64_t v) { Op o; o.k = INT; o.i = v; return o; }
  static Op F (float v) { Op o; o.k = FLT; o.f = v; return o; }
  static Op D (double v) { Op o; o.k = DBL; o.d = v; return o; }
  static Op LD (long double v) { Op o; o.k = LDBL; o.ld = v; return o; }
  static Op L (int l) { Op o; o.k = LAB; o.lab = l; return o; }
  static Op Ref (const std::string &n) { Op o; o.k = REF; o.ref = n; return o; }
  static Op M (int type, int64_t disp, int base, int index = -1, int scale = 1) {
    Op o; o.k = MEM; o.m.type = type; o.m.disp = disp; o.m.base = base; o.m.index = index; o.m.scale = scale;
    return o;
  }
};

struct Insn {
  int code;  // MIR_insn_code_t; MIR_LABEL uses ops[0].lab
  std::vector<Op> ops;
  Insn () : code (MIR_INVALID_INSN) {}
  Insn (int c, std::initializer_list<Op> o) : code (c), ops (o) {}
  Insn (int c, const std::vector<Op> &o) : code (c), ops (o) {}
};

struct Arg {
  int type;  // MIR_type_t
  std::string name;
  size_t size = 0;  // blk types
};

struct Proto {
  std::string name;
  std::vector<int> res;
  std::vector<Arg> args;
  bool vararg = false;
};

struct Func {
  std::string name;
  std::vector<int> res;
  std::vector<Arg> args;  // args are registers 0..nargs-1
  bool vararg = false;
  std::vector<Reg> regs;  // all registers incl. args (args first)
  std::vector<Insn> insns;
  int nlabels = 0;
  std::string raw_text;    // a passive function given as text (never executed by the reference evaluator)
  std::string lab_prefix;  // labels are module-scoped in MIR text: "L<prefix>_<n>"
  std::string lab_name (int l) const { return "L" + lab_prefix + "_" + std::to_string (l); }
  int new_label () { return nlabels++; }
  int new_reg (RC rc, const char *prefix) {
    regs.push_back ({rc, std::string (prefix) + std::to_string (regs.size ())});
    return (int) regs.size () - 1;
  }
  void add (int code, std::initializer_list<Op> ops) { insns.emplace_back (code, ops); }
  void label (int l) { insns.emplace_back (MIR_LABEL, std::initializer_list<Op>{Op::L (l)}); }
};

struct DataItem {
  enum K { DATA, BSS, REF, LREF, EXPR, STRING } k = DATA;
  std::string name;  // may be empty
  int el_type = MIR_T_I64;
  std::vector<uint8_t> bytes;  // raw element bytes (DATA / STRING)
  size_t len = 0;              // BSS
  std::string ref;             // REF target / EXPR func / LREF owner func
  int64_t disp = 0;
  int lab = -1, lab2 = -1;
};

struct Item {
  enum K { FUNC, PROTO, IMPORT, EXPORT, FORWARD, DATA } k;
  int idx;           // index into the per-kind vector
  std::string name;  // import/export/forward
};

struct Module {
  std::string name;
  std::vector<Func> funcs;
  std::vector<Proto> protos;
  std::vector<DataItem> datas;
  std::vector<Item> items;  // declaration order
  void add_func (const Func &f) { funcs.push_back (f); items.push_back ({Item::FUNC, (int) funcs.size () - 1, ""}); }
  void add_proto (const Proto &p) { protos.push_back (p); items.push_back ({Item::PROTO, (int) protos.size () - 1, ""}); }
  void add_data (const DataItem &d) { datas.push_back (d); items.push_back ({Item::DATA, (int) datas.size () - 1, ""}); }
  void add_decl (Item::K k, const std::string &n) { items.push_back ({k, -1, n}); }
};

struct Prog {
  std::vector<Module> mods;
};

// ------------------------------------------------------------------ text emitter
static inline const char *type_name (int t) {
  switch (t) {
  case MIR_T_I8: return "i8";
  case MIR_T_U8: return "u8";
  case MIR_T_I16: return "i16";
  case MIR_T_U16: return "u16";
  case MIR_T_I32: return "i32";
  case MIR_T_U32: return "u32";
  case MIR_T_I64: return "i64";
  case MIR_T_U64: return "u64";
  case MIR_T_F: return "f";
  case MIR_T_D: return "d";
  case MIR_T_LD: return "ld";
  case MIR_T_P: return "p";
  case MIR_T_RBLK: return "rblk";
  default:
    if (t >= MIR_T_BLK && t < MIR_T_RBLK) {
      static const char *b[] = {"blk", "blk1", "blk2", "blk3", "blk4"};
      return b[t - MIR_T_BLK];
    }
    return "?";
  }
}

// opcode names, spelled here from MIR.md (independent of insn_descs)
static inline const char *insn_name (int c) {
  switch (c) {
#define N(C, S) case MIR_##C: return S;
    N (MOV, "mov") N (FMOV, "fmov") N (DMOV, "dmov") N (LDMOV, "ldmov")
    N (EXT8, "ext8") N (EXT16, "ext16") N (EXT32, "ext32") N (UEXT8, "uext8") N (UEXT16, "uext16") N (UEXT32, "uext32")
    N (I2F, "i2f") N (I2D, "i2d") N (I2LD, "i2ld") N (UI2F, "ui2f") N (UI2D, "ui2d") N (UI2LD, "ui2ld")
    N (F2I, "f2i") N (D2I, "d2i") N (LD2I, "ld2i") N (F2D, "f2d") N (F2LD, "f2ld") N (D2F, "d2f") N (D2LD, "d2ld")
    N (LD2F, "ld2f") N (LD2D, "ld2d")
    N (NEG, "neg") N (NEGS, "negs") N (FNEG, "fneg") N (DNEG, "dneg") N (LDNEG, "ldneg")
    N (ADDR, "addr") N (ADDR8, "addr8") N (ADDR16, "addr16") N (ADDR32, "addr32")
    N (ADD, "add") N (ADDS, "adds") N (FADD, "fadd") N (DADD, "dadd") N (LDADD, "ldadd")
    N (SUB, "sub") N (SUBS, "subs") N (FSUB, "fsub") N (DSUB, "dsub") N (LDSUB, "ldsub")
    N (MUL, "mul") N (MULS, "muls") N (FMUL, "fmul") N (DMUL, "dmul") N (LDMUL, "ldmul")
    N (DIV, "div") N (DIVS, "divs") N (UDIV, "udiv") N (UDIVS, "udivs") N (FDIV, "fdiv") N (DDIV, "ddiv") N (LDDIV, "lddiv")
    N (MOD, "mod") N (MODS, "mods") N (UMOD, "umod") N (UMODS, "umods")
    N (AND, "and") N (ANDS, "ands") N (OR, "or") N (ORS, "ors") N (XOR, "xor") N (XORS, "xors")
    N (LSH, "lsh") N (LSHS, "lshs") N (RSH, "rsh") N (RSHS, "rshs") N (URSH, "ursh") N (URSHS, "urshs")
    N (EQ, "eq") N (EQS, "eqs") N (FEQ, "feq") N (DEQ, "deq") N (LDEQ, "ldeq")
    N (NE, "ne") N (NES, "nes") N (FNE, "fne") N (DNE, "dne") N (LDNE, "ldne")
    N (LT, "lt") N (LTS, "lts") N (ULT, "ult") N (ULTS, "ults") N (FLT, "flt") N (DLT, "dlt") N (LDLT, "ldlt")
    N (LE, "le") N (LES, "les") N (ULE, "ule") N (ULES, "ules") N (FLE, "fle") N (DLE, "dle") N (LDLE, "ldle")
    N (GT, "gt") N (GTS, "gts") N (UGT, "ugt") N (UGTS, "ugts") N (FGT, "fgt") N (DGT, "dgt") N (LDGT, "ldgt")
    N (GE, "ge") N (GES, "ges") N (UGE, "uge") N (UGES, "uges") N (FGE, "fge") N (DGE, "dge") N (LDGE, "ldge")
    N (ADDO, "addo") N (ADDOS, "addos") N (SUBO, "subo") N (SUBOS, "subos") N (MULO, "mulo") N (MULOS, "mulos")
    N (UMULO, "umulo") N (UMULOS, "umulos")
    N (JMP, "jmp") N (BT, "bt") N (BTS, "bts") N (BF, "bf") N (BFS, "bfs")
    N (BEQ, "beq") N (BEQS, "beqs") N (FBEQ, "fbeq") N (DBEQ, "dbeq") N (LDBEQ, "ldbeq")
    N (BNE, "bne") N (BNES, "bnes") N (FBNE, "fbne") N (DBNE, "dbne") N (LDBNE, "ldbne")
    N (BLT, "blt") N (BLTS, "blts") N (UBLT, "ublt") N (UBLTS, "ublts") N (FBLT, "fblt") N (DBLT, "dblt") N (LDBLT, "ldblt")
    N (BLE, "ble") N (BLES, "bles") N (UBLE, "uble") N (UBLES, "ubles") N (FBLE, "fble") N (DBLE, "dble") N (LDBLE, "ldble")
    N (BGT, "bgt") N (BGTS, "bgts") N (UBGT, "ubgt") N (UBGTS, "ubgts") N (FBGT, "fbgt") N (DBGT, "dbgt") N (LDBGT, "ldbgt")
    N (BGE, "bge") N (BGES, "bges") N (UBGE, "ubge") N (UBGES, "ubges") N (FBGE, "fbge") N (DBGE, "dbge") N (LDBGE, "ldbge")
    N (BO, "bo") N (UBO, "ubo") N (BNO, "bno") N (UBNO, "ubno")
    N (LADDR, "laddr") N (JMPI, "jmpi") N (CALL, "call") N (INLINE, "inline") N (JCALL, "jcall")
    N (SWITCH, "switch") N (RET, "ret") N (JRET, "jret") N (ALLOCA, "alloca") N (BSTART, "bstart") N (BEND, "bend")
    N (VA_ARG, "va_arg") N (VA_BLOCK_ARG, "va_block_arg") N (VA_START, "va_start") N (VA_END, "va_end")
#undef N
  default: return "?";
  }
}

static inline std::string arg_text (const Arg &a) {
  if (a.type >= MIR_T_BLK && a.type <= MIR_T_RBLK)
    return strfmt ("%s:%zu(%s)", type_name (a.type), a.size, a.name.c_str ());
  return std::string (type_name (a.type)) + ":" + a.name;
}

static inline std::string op_text (const Func &f, const Op &o) {
  switch (o.k) {
  case Op::REG: return f.regs[o.reg].name;
  case Op::INT: return strfmt ("%ld", (long) o.i);
  case Op::UINT: return strfmt ("%lu", (unsigned long) o.i);
  case Op::FLT: return strfmt ("%.24ef", (double) o.f);
  case Op::DBL: return strfmt ("%.53e", o.d);
  case Op::LDBL: return strfmt ("%.64LeL", o.ld);
  case Op::LAB: return f.lab_name (o.lab);
  case Op::REF: return o.ref;
  case Op::MEM: {
    std::string s = std::string (type_name (o.m.type)) + ":";
    if (o.m.type >= MIR_T_BLK && o.m.type <= MIR_T_RBLK) {  // block call argument: blk:size(reg)
      return s + strfmt ("%ld(%s)", (long) o.m.disp, f.regs[o.m.base].name.c_str ());
    }
    if (o.m.disp != 0 || (o.m.base < 0 && o.m.index < 0)) s += strfmt ("%ld", (long) o.m.disp);
    if (o.m.base >= 0 || o.m.index >= 0) {
      s += "(";
      if (o.m.base >= 0) s += f.regs[o.m.base].name;
      if (o.m.index >= 0) {
        s += ", " + f.regs[o.m.index].name;
        if (o.m.scale != 1) s += strfmt (", %d", o.m.scale);
      }
      s += ")";
    }
    if (o.m.alias || o.m.nonalias) {
      s += ":";
      if (o.m.alias) s += strfmt ("al%d", o.m.alias);
      if (o.m.nonalias) s += strfmt (":nal%d", o.m.nonalias);
    }
    return s;
  }
  default: return "?";
  }
}

static inline std::string insn_text (const Func &f, const Insn &in) {
  if (in.code == MIR_LABEL) return f.lab_name (in.ops[0].lab) + ":";
  std::string s = std::string ("\t") + insn_name (in.code);
  for (size_t i = 0; i < in.ops.size (); i++) s += (i ? ", " : "\t") + op_text (f, in.ops[i]);
  return s;
}

static inline std::string func_text (const Func &f) {
  if (!f.raw_text.empty ()) return f.raw_text;
  std::string s = f.name + ":\tfunc\t";
  bool first = true;
  for (int r : f.res) {
    s += (first ? "" : ", ") + std::string (type_name (r));
    first = false;
  }
  for (auto &a : f.args) {
    s += (first ? "" : ", ") + arg_text (a);
    first = false;
  }
  if (f.vararg) s += first ? "..." : ", ...";
  s += "\n";
  if (f.regs.size () > f.args.size ()) {
    s += "\tlocal\t";
    for (size_t i = f.args.size (); i < f.regs.size (); i++)
      s += (i > f.args.size () ? ", " : "") + std::string (rc_type (f.regs[i].rc)) + ":" + f.regs[i].name;
    s += "\n";
  }
  for (auto &in : f.insns) s += insn_text (f, in) + "\n";
  s += "\tendfunc\n";
  return s;
}

static inline std::string proto_text (const Proto &p) {
  std::string s = p.name + ":\tproto\t";
  bool first = true;
  for (int r : p.res) {
    s += (first ? "" : ", ") + std::string (type_name (r));
    first = false;
  }
  for (auto &a : p.args) {
    s += (first ? "" : ", ") + arg_text (a);
    first = false;
  }
  if (p.vararg) s += first ? "..." : ", ...";
  return s + "\n";
}

static inline std::string data_text (const DataItem &d) {
  std::string s = d.name.empty () ? "\t" : d.name + ":\t";
  switch (d.k) {
  case DataItem::BSS: return s + strfmt ("bss\t%zu\n", d.len);
  case DataItem::REF: return s + "ref\t" + d.ref + strfmt (", %ld", (long) d.disp) + "\n";
  case DataItem::EXPR: return s + "expr\t" + d.ref + "\n";
  case DataItem::LREF:
    if (!d.ref.empty ())  // labels of the function with this label prefix (the function right before the item)
      return s + "lref\tL" + d.ref + strfmt ("_%d", d.lab) + (d.lab2 >= 0 ? ", L" + d.ref + strfmt ("_%d", d.lab2) : std::string ())
             + (d.disp ? strfmt (", %ld", (long) d.disp) : "") + "\n";
    return s + strfmt ("lref\tL%d", d.lab) + (d.lab2 >= 0 ? strfmt (", L%d", d.lab2) : "")
           + (d.disp ? strfmt (", %ld", (long) d.disp) : "") + "\n";
  default: break;
  }
  s += std::string (type_name (d.el_type)) + "\t";
  size_t es = d.el_type == MIR_T_LD ? 16 : (d.el_type == MIR_T_F || d.el_type == MIR_T_I32 || d.el_type == MIR_T_U32) ? 4
              : (d.el_type == MIR_T_I16 || d.el_type == MIR_T_U16) ? 2
              : (d.el_type == MIR_T_I8 || d.el_type == MIR_T_U8) ? 1 : 8;
  for (size_t i = 0; i + es <= d.bytes.size (); i += es) {
    if (i) s += ", ";
    const uint8_t *p = d.bytes.data () + i;
    switch (d.el_type) {
    case MIR_T_I8: s += strfmt ("%d", *(const int8_t *) p); break;
    case MIR_T_U8: s += strfmt ("%u", *p); break;
    case MIR_T_I16: { int16_t v; memcpy (&v, p, 2); s += strfmt ("%d", v); break; }
    case MIR_T_U16: { uint16_t v; memcpy (&v, p, 2); s += strfmt ("%u", v); break; }
    case MIR_T_I32: { int32_t v; memcpy (&v, p, 4); s += strfmt ("%d", v); break; }
    case MIR_T_U32: { uint32_t v; memcpy (&v, p, 4); s += strfmt ("%u", v); break; }
    case MIR_T_I64: { int64_t v; memcpy (&v, p, 8); s += strfmt ("%ld", (long) v); break; }
    case MIR_T_U64: case MIR_T_P: { uint64_t v; memcpy (&v, p, 8); s += strfmt ("%lu", (unsigned long) v); break; }
    case MIR_T_F: { float v; memcpy (&v, p, 4); s += strfmt ("%.24ef", (double) v); break; }
    case MIR_T_D: { double v; memcpy (&v, p, 8); s += strfmt ("%.53e", v); break; }
    case MIR_T_LD: { long double v = 0; memcpy (&v, p, 10); s += strfmt ("%.64LeL", v); break; }
    }
  }
  return s + "\n";
}

static inline std::string module_text (const Module &m) {
  std::string s = m.name + ":\tmodule\n";
  for (auto &it : m.items) switch (it.k) {
    case Item::FUNC: s += func_text (m.funcs[it.idx]); break;
    case Item::PROTO: s += proto_text (m.protos[it.idx]); break;
    case Item::IMPORT: s += "\timport\t" + it.name + "\n"; break;
    case Item::EXPORT: s += "\texport\t" + it.name + "\n"; break;
    case Item::FORWARD: s += "\tforward\t" + it.name + "\n"; break;
    case Item::DATA: s += data_text (m.datas[it.idx]); break;
    }
  return s + "\tendmodule\n";
}

static inline std::string prog_text (const Prog &p) {
  std::string s;
  for (auto &m : p.mods) s += module_text (m);
  return s;
}

}  // namespace mm
