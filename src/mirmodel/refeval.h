// Independent reference evaluator of mm::Prog, written from MIR.md ("MIR insns"), sharing no code
// with mir.c / mir-interp.c. It evaluates the program AS WRITTEN (a call is a call, nothing is
// simplified or inlined) and decides well-definedness: anything MIR.md leaves undefined makes the
// case "undefined" (=> discarded by the harness), never a verdict.
#pragma once
#include "model.h"
#include <functional>
#include <float.h>

namespace mm {

struct Val {
  int64_t i = 0;
  float f = 0;
  double d = 0;
  long double ld = 0;
  bool def = false;
  bool w32 = false;  // integer whose upper 32 bits are undefined (result of an `S` insn)
};
static inline Val VI (int64_t v, bool w32 = false) { Val x; x.i = v; x.def = true; x.w32 = w32; return x; }
static inline Val VF (float v) { Val x; x.f = v; x.def = true; return x; }
static inline Val VD (double v) { Val x; x.d = v; x.def = true; return x; }
static inline Val VLD (long double v) { Val x; x.ld = v; x.def = true; return x; }

struct Undefined {
  std::string why;
};
struct ModelError {
  std::string why;
};

struct CallRec {
  std::string name;
  std::vector<int> types;  // MIR types of args
  std::vector<Val> args;
};

// shadow tags of memory bytes
enum { SH_UNINIT = 0, SH_PLAIN = 1, SH_NAN_F = 0x10, SH_NAN_D = 0x20, SH_NAN_LD = 0x30 };

struct Region {
  std::vector<uint8_t> bytes, shadow;
  bool live = true;
  int frame = -1;  // owning frame for alloca regions
  int bstart_level = 0;
};

#define MM_ADDR_BIAS 0x40000000ull
#define MM_BUF_ADDR 0x20000f00ull  // the harness maps the observed buffer here in every engine AND in refeval
#define MM_BUF_SIZE 256
static inline uint64_t mk_addr (uint32_t region, uint64_t off) { return ((uint64_t) region << 32) | (MM_ADDR_BIAS + off); }

struct ExtFn {
  std::vector<int> arg_types, res_types;
  // model of the native function: must be the very function the harness registers with MIR_load_external
  std::function<void (const std::vector<Val> &, std::vector<Val> &)> fn;
};

static inline bool is_nan_f (float x) { return x != x; }
static inline bool is_nan_d (double x) { return x != x; }
static inline bool is_nan_ld (long double x) { return x != x; }

static inline int type_size (int t) {
  switch (t) {
  case MIR_T_I8: case MIR_T_U8: return 1;
  case MIR_T_I16: case MIR_T_U16: return 2;
  case MIR_T_I32: case MIR_T_U32: case MIR_T_F: return 4;
  case MIR_T_LD: return 10;  // x87 extended: 10 value bytes are read/written
  default: return 8;
  }
}

struct Evaluator {
  const Prog &prog;
  std::map<std::string, ExtFn> exts;
  std::map<std::string, std::pair<int, int>> funcs;  // name -> (module, index)
  std::vector<Region> regions;
  std::vector<CallRec> log;
  long steps = 0, max_steps = 200000;
  int depth = 0, max_depth = 60;
  // path facts for non-triviality rules
  int taken_back_edges = 0, calls_done = 0, mem_accesses = 0, ext_calls = 0;
  std::vector<char> blocks_seen;
  std::map<std::string, int> op_hist;

  explicit Evaluator (const Prog &p) : prog (p) {
    regions.resize (1);  // region 0 unused (null)
    regions[0].live = false;
    for (size_t m = 0; m < p.mods.size (); m++)
      for (size_t k = 0; k < p.mods[m].funcs.size (); k++) funcs[p.mods[m].funcs[k].name] = {(int) m, (int) k};
  }
  uint64_t new_region (size_t size, bool init, int frame = -1) {
    Region r;
    r.bytes.assign (size, 0);
    r.shadow.assign (size, init ? SH_PLAIN : SH_UNINIT);
    r.frame = frame;
    regions.push_back (r);
    return mk_addr ((uint32_t) regions.size () - 1, 0);
  }
  Region &region_of (uint64_t addr, size_t size, size_t &off) {
    uint32_t rid = (uint32_t) (addr >> 32);
    uint64_t lo = addr & 0xffffffffull;
    if (rid == 0 && regions[0].live) {  // the observed buffer lives at its real address
      if (lo < MM_BUF_ADDR) throw Undefined{"access below object"};
      off = (size_t) (lo - MM_BUF_ADDR);
      if (off + size > regions[0].bytes.size ()) throw Undefined{"access beyond object"};
      return regions[0];
    }
    if (rid == 0 || rid >= regions.size () || !regions[rid].live) throw Undefined{"access outside any live object"};
    if (lo < MM_ADDR_BIAS) throw Undefined{"access below object"};
    off = (size_t) (lo - MM_ADDR_BIAS);
    if (off + size > regions[rid].bytes.size ()) throw Undefined{"access beyond object"};
    return regions[rid];
  }
  // function "addresses": region id 0xF000 | index in flattened list
  std::vector<std::string> func_names;
  uint64_t func_addr (const std::string &name) {
    for (size_t i = 0; i < func_names.size (); i++)
      if (func_names[i] == name) return ((uint64_t) 0xF000 << 32) | i;
    func_names.push_back (name);
    return ((uint64_t) 0xF000 << 32) | (func_names.size () - 1);
  }

  // ------------------------------------------------------------ memory
  Val load (int type, uint64_t addr) {
    size_t off, n = (size_t) type_size (type);
    Region &r = region_of (addr, n, off);
    mem_accesses++;
    uint8_t tag0 = r.shadow[off];
    for (size_t k = 0; k < n; k++) {
      uint8_t s = r.shadow[off + k];
      if (s == SH_UNINIT) throw Undefined{"read of uninitialised memory"};
      if (s >= SH_NAN_F) {  // bytes of a stored NaN: only the same FP type at the same place may read them
        uint8_t want = (type == MIR_T_F ? SH_NAN_F : type == MIR_T_D ? SH_NAN_D : type == MIR_T_LD ? SH_NAN_LD : 0);
        if (want == 0 || s != (uint8_t) (want + k)) throw Undefined{"NaN bytes re-read with another type"};
      } else if (tag0 >= SH_NAN_F)
        throw Undefined{"NaN bytes re-read with another type"};
    }
    const uint8_t *p = r.bytes.data () + off;
    switch (type) {
    case MIR_T_I8: return VI (*(const int8_t *) p);
    case MIR_T_U8: return VI (*p);
    case MIR_T_I16: { int16_t v; memcpy (&v, p, 2); return VI (v); }
    case MIR_T_U16: { uint16_t v; memcpy (&v, p, 2); return VI (v); }
    case MIR_T_I32: { int32_t v; memcpy (&v, p, 4); return VI (v); }
    case MIR_T_U32: { uint32_t v; memcpy (&v, p, 4); return VI (v); }
    case MIR_T_F: { float v; memcpy (&v, p, 4); return VF (v); }
    case MIR_T_D: { double v; memcpy (&v, p, 8); return VD (v); }
    case MIR_T_LD: { long double v = 0; memcpy (&v, p, 10); return VLD (v); }
    default: { int64_t v; memcpy (&v, p, 8); return VI (v); }
    }
  }
  void store (int type, uint64_t addr, const Val &v) {
    size_t off, n = (size_t) type_size (type);
    Region &r = region_of (addr, n, off);
    mem_accesses++;
    uint8_t *p = r.bytes.data () + off;
    uint8_t tag = SH_PLAIN;
    switch (type) {
    case MIR_T_F: memcpy (p, &v.f, 4); if (is_nan_f (v.f)) tag = SH_NAN_F; break;
    case MIR_T_D: memcpy (p, &v.d, 8); if (is_nan_d (v.d)) tag = SH_NAN_D; break;
    case MIR_T_LD: memcpy (p, &v.ld, 10); if (is_nan_ld (v.ld)) tag = SH_NAN_LD; break;
    default:
      if (v.w32 && n > 4) throw Undefined{"32-bit result stored with a 64-bit memory type"};
      memcpy (p, &v.i, n);
    }
    // a partial overwrite of NaN bytes leaves an unreadable remainder: mark whole old NaN objects plain? no:
    // simply retag the written bytes; readers of the torn remainder are discarded by load().
    for (size_t k = 0; k < n; k++) r.shadow[off + k] = tag == SH_PLAIN ? SH_PLAIN : (uint8_t) (tag + k);
  }

  // ------------------------------------------------------------ frames
  struct Frame {
    const Func *f;
    std::vector<Val> regs;
    std::map<int, size_t> labpos;
    int id;
    std::vector<uint32_t> allocas;       // region ids
    std::vector<size_t> bstart_marks;    // values handed out by bstart: index into allocas
  };
  int next_frame_id = 1;

  static int64_t need_i64 (const Val &v) {
    if (!v.def) throw Undefined{"read of unset register"};
    if (v.w32) throw Undefined{"upper half of a 32-bit result observed"};
    return v.i;
  }
  static int32_t need_i32 (const Val &v) {
    if (!v.def) throw Undefined{"read of unset register"};
    return (int32_t) v.i;
  }

  uint64_t mem_addr (Frame &fr, const Mem &m) {
    uint64_t a = (uint64_t) m.disp;
    if (m.base >= 0) a += (uint64_t) need_i64 (fr.regs[m.base]);
    if (m.index >= 0) a += (uint64_t) need_i64 (fr.regs[m.index]) * (uint64_t) m.scale;
    return a;
  }
  Val rd (Frame &fr, const Op &o) {
    switch (o.k) {
    case Op::REG: {
      const Val &v = fr.regs[o.reg];
      if (!v.def) throw Undefined{"read of unset register"};
      return v;
    }
    case Op::INT: case Op::UINT: return VI (o.i);
    case Op::FLT: return VF (o.f);
    case Op::DBL: return VD (o.d);
    case Op::LDBL: return VLD (o.ld);
    case Op::MEM: return load (o.m.type, mem_addr (fr, o.m));
    case Op::REF: {
      if (funcs.count (o.ref) || exts.count (o.ref)) return VI ((int64_t) func_addr (o.ref));
      auto it = data_addr.find (o.ref);
      if (it != data_addr.end ()) return VI ((int64_t) it->second);
      throw ModelError{"ref to unknown item " + o.ref};
    }
    default: throw ModelError{"bad input operand"};
    }
  }
  void wr (Frame &fr, const Op &o, const Val &v) {
    if (o.k == Op::REG) {
      fr.regs[o.reg] = v;
      fr.regs[o.reg].def = true;
    } else if (o.k == Op::MEM)
      store (o.m.type, mem_addr (fr, o.m), v);
    else
      throw ModelError{"bad output operand"};
  }
  std::map<std::string, uint64_t> data_addr;  // named data items placed by the harness

  // ------------------------------------------------------------ pure instruction semantics
  struct Flags {
    bool so = false, uo = false, valid = false, is_unsigned_mul = false, is_signed_mul = false;
  };

  static int64_t ext_by_type (int t, int64_t v) {
    switch (t) {
    case MIR_T_I8: return (int8_t) v;
    case MIR_T_U8: return (uint8_t) v;
    case MIR_T_I16: return (int16_t) v;
    case MIR_T_U16: return (uint16_t) v;
    case MIR_T_I32: return (int32_t) v;
    case MIR_T_U32: return (uint32_t) v;
    default: return v;
    }
  }

  // 2-operand non-control insns. Returns result value.
  static Val eval2 (int code, const Val &a) {
    switch (code) {
    case MIR_MOV: { if (!a.def) throw Undefined{"unset"}; return a; }
    case MIR_FMOV: return VF (a.f);
    case MIR_DMOV: return VD (a.d);
    case MIR_LDMOV: return VLD (a.ld);
    case MIR_EXT8: return VI ((int8_t) a.i);
    case MIR_EXT16: return VI ((int16_t) a.i);
    case MIR_EXT32: return VI ((int32_t) a.i);
    case MIR_UEXT8: return VI ((uint8_t) a.i);
    case MIR_UEXT16: return VI ((uint16_t) a.i);
    case MIR_UEXT32: return VI ((uint32_t) a.i);
    case MIR_NEG: return VI ((int64_t) (0 - (uint64_t) need_i64 (a)));
    case MIR_NEGS: return VI ((int32_t) (0 - (uint32_t) a.i), true);
    case MIR_I2F: return VF ((float) need_i64 (a));
    case MIR_I2D: return VD ((double) need_i64 (a));
    case MIR_I2LD: return VLD ((long double) need_i64 (a));
    case MIR_UI2F: return VF ((float) (uint64_t) need_i64 (a));
    case MIR_UI2D: return VD ((double) (uint64_t) need_i64 (a));
    case MIR_UI2LD: return VLD ((long double) (uint64_t) need_i64 (a));
    case MIR_F2I:
      if (!(a.f > -9223373136366403584.0f && a.f < 9223372036854775808.0f)) throw Undefined{"f2i out of range"};
      return VI ((int64_t) a.f);
    case MIR_D2I:
      if (!(a.d > -9223372036854777856.0 && a.d < 9223372036854775808.0)) throw Undefined{"d2i out of range"};
      return VI ((int64_t) a.d);
    case MIR_LD2I:
      if (!(a.ld > -9223372036854775809.0L && a.ld < 9223372036854775808.0L)) throw Undefined{"ld2i out of range"};
      return VI ((int64_t) a.ld);
    case MIR_F2D: return VD ((double) a.f);
    case MIR_F2LD: return VLD ((long double) a.f);
    case MIR_D2F: return VF ((float) a.d);
    case MIR_D2LD: return VLD ((long double) a.d);
    case MIR_LD2F: return VF ((float) a.ld);
    case MIR_LD2D: return VD ((double) a.ld);
    case MIR_FNEG: return VF (-a.f);
    case MIR_DNEG: return VD (-a.d);
    case MIR_LDNEG: return VLD (-a.ld);
    default: throw ModelError{strfmt ("eval2: code %d", code)};
    }
  }
  static bool low_half_input_2 (int code) {  // 2-op insns that only look at low bits of the input
    return code == MIR_EXT8 || code == MIR_EXT16 || code == MIR_EXT32 || code == MIR_UEXT8 || code == MIR_UEXT16
           || code == MIR_UEXT32 || code == MIR_NEGS;
  }

  static Val eval3 (int code, const Val &a, const Val &b, Flags &fl) {
#define A64 need_i64 (a)
#define B64 need_i64 (b)
#define UA64 ((uint64_t) need_i64 (a))
#define UB64 ((uint64_t) need_i64 (b))
#define A32 need_i32 (a)
#define B32 need_i32 (b)
#define UA32 ((uint32_t) need_i32 (a))
#define UB32 ((uint32_t) need_i32 (b))
#define S32(x) VI ((int32_t) (x), true)
    switch (code) {
    case MIR_ADD: return VI ((int64_t) (UA64 + UB64));
    case MIR_SUB: return VI ((int64_t) (UA64 - UB64));
    case MIR_MUL: return VI ((int64_t) (UA64 * UB64));
    case MIR_ADDS: return S32 (UA32 + UB32);
    case MIR_SUBS: return S32 (UA32 - UB32);
    case MIR_MULS: return S32 (UA32 * UB32);
    case MIR_DIV:
      if (B64 == 0 || (A64 == INT64_MIN && B64 == -1)) throw Undefined{"div by zero / overflow"};
      return VI (A64 / B64);
    case MIR_MOD:
      if (B64 == 0 || (A64 == INT64_MIN && B64 == -1)) throw Undefined{"mod by zero / overflow"};
      return VI (A64 % B64);
    case MIR_UDIV: if (UB64 == 0) throw Undefined{"udiv by zero"}; return VI ((int64_t) (UA64 / UB64));
    case MIR_UMOD: if (UB64 == 0) throw Undefined{"umod by zero"}; return VI ((int64_t) (UA64 % UB64));
    case MIR_DIVS:
      if (B32 == 0 || (A32 == INT32_MIN && B32 == -1)) throw Undefined{"divs by zero / overflow"};
      return S32 (A32 / B32);
    case MIR_MODS:
      if (B32 == 0 || (A32 == INT32_MIN && B32 == -1)) throw Undefined{"mods by zero / overflow"};
      return S32 (A32 % B32);
    case MIR_UDIVS: if (UB32 == 0) throw Undefined{"udivs by zero"}; return S32 (UA32 / UB32);
    case MIR_UMODS: if (UB32 == 0) throw Undefined{"umods by zero"}; return S32 (UA32 % UB32);
    case MIR_AND: return VI (A64 & B64);
    case MIR_OR: return VI (A64 | B64);
    case MIR_XOR: return VI (A64 ^ B64);
    case MIR_ANDS: return S32 (UA32 & UB32);
    case MIR_ORS: return S32 (UA32 | UB32);
    case MIR_XORS: return S32 (UA32 ^ UB32);
    case MIR_LSH: if (UB64 >= 64) throw Undefined{"shift count"}; return VI ((int64_t) (UA64 << UB64));
    case MIR_RSH: if (UB64 >= 64) throw Undefined{"shift count"}; return VI (A64 >> UB64);
    case MIR_URSH: if (UB64 >= 64) throw Undefined{"shift count"}; return VI ((int64_t) (UA64 >> UB64));
    case MIR_LSHS: if (UB32 >= 32) throw Undefined{"shift count"}; return S32 (UA32 << UB32);
    case MIR_RSHS: if (UB32 >= 32) throw Undefined{"shift count"}; return S32 (A32 >> UB32);
    case MIR_URSHS: if (UB32 >= 32) throw Undefined{"shift count"}; return S32 (UA32 >> UB32);
    case MIR_EQ: return VI (A64 == B64);
    case MIR_NE: return VI (A64 != B64);
    case MIR_LT: return VI (A64 < B64);
    case MIR_LE: return VI (A64 <= B64);
    case MIR_GT: return VI (A64 > B64);
    case MIR_GE: return VI (A64 >= B64);
    case MIR_ULT: return VI (UA64 < UB64);
    case MIR_ULE: return VI (UA64 <= UB64);
    case MIR_UGT: return VI (UA64 > UB64);
    case MIR_UGE: return VI (UA64 >= UB64);
    case MIR_EQS: return S32 (A32 == B32);
    case MIR_NES: return S32 (A32 != B32);
    case MIR_LTS: return S32 (A32 < B32);
    case MIR_LES: return S32 (A32 <= B32);
    case MIR_GTS: return S32 (A32 > B32);
    case MIR_GES: return S32 (A32 >= B32);
    case MIR_ULTS: return S32 (UA32 < UB32);
    case MIR_ULES: return S32 (UA32 <= UB32);
    case MIR_UGTS: return S32 (UA32 > UB32);
    case MIR_UGES: return S32 (UA32 >= UB32);
    case MIR_FADD: return VF (a.f + b.f);
    case MIR_FSUB: return VF (a.f - b.f);
    case MIR_FMUL: return VF (a.f * b.f);
    case MIR_FDIV: return VF (a.f / b.f);
    case MIR_DADD: return VD (a.d + b.d);
    case MIR_DSUB: return VD (a.d - b.d);
    case MIR_DMUL: return VD (a.d * b.d);
    case MIR_DDIV: return VD (a.d / b.d);
    case MIR_LDADD: return VLD (a.ld + b.ld);
    case MIR_LDSUB: return VLD (a.ld - b.ld);
    case MIR_LDMUL: return VLD (a.ld * b.ld);
    case MIR_LDDIV: return VLD (a.ld / b.ld);
    case MIR_FEQ: return VI (a.f == b.f);
    case MIR_FNE: return VI (a.f != b.f);
    case MIR_FLT: return VI (a.f < b.f);
    case MIR_FLE: return VI (a.f <= b.f);
    case MIR_FGT: return VI (a.f > b.f);
    case MIR_FGE: return VI (a.f >= b.f);
    case MIR_DEQ: return VI (a.d == b.d);
    case MIR_DNE: return VI (a.d != b.d);
    case MIR_DLT: return VI (a.d < b.d);
    case MIR_DLE: return VI (a.d <= b.d);
    case MIR_DGT: return VI (a.d > b.d);
    case MIR_DGE: return VI (a.d >= b.d);
    case MIR_LDEQ: return VI (a.ld == b.ld);
    case MIR_LDNE: return VI (a.ld != b.ld);
    case MIR_LDLT: return VI (a.ld < b.ld);
    case MIR_LDLE: return VI (a.ld <= b.ld);
    case MIR_LDGT: return VI (a.ld > b.ld);
    case MIR_LDGE: return VI (a.ld >= b.ld);
    case MIR_ADDO: {
      int64_t r;
      fl.so = __builtin_add_overflow (A64, B64, &r);
      uint64_t ur;
      fl.uo = __builtin_add_overflow (UA64, UB64, &ur);
      fl.valid = true; fl.is_signed_mul = fl.is_unsigned_mul = false;
      return VI ((int64_t) ur);
    }
    case MIR_SUBO: {
      int64_t r;
      fl.so = __builtin_sub_overflow (A64, B64, &r);
      uint64_t ur;
      fl.uo = __builtin_sub_overflow (UA64, UB64, &ur);
      fl.valid = true; fl.is_signed_mul = fl.is_unsigned_mul = false;
      return VI ((int64_t) ur);
    }
    case MIR_ADDOS: {
      int32_t r;
      fl.so = __builtin_add_overflow (A32, B32, &r);
      uint32_t ur;
      fl.uo = __builtin_add_overflow (UA32, UB32, &ur);
      fl.valid = true; fl.is_signed_mul = fl.is_unsigned_mul = false;
      return S32 (ur);
    }
    case MIR_SUBOS: {
      int32_t r;
      fl.so = __builtin_sub_overflow (A32, B32, &r);
      uint32_t ur;
      fl.uo = __builtin_sub_overflow (UA32, UB32, &ur);
      fl.valid = true; fl.is_signed_mul = fl.is_unsigned_mul = false;
      return S32 (ur);
    }
    case MIR_MULO: {
      int64_t r;
      fl.so = __builtin_mul_overflow (A64, B64, &r);
      fl.valid = true; fl.is_signed_mul = true; fl.is_unsigned_mul = false;
      return VI ((int64_t) (UA64 * UB64));
    }
    case MIR_MULOS: {
      int32_t r;
      fl.so = __builtin_mul_overflow (A32, B32, &r);
      fl.valid = true; fl.is_signed_mul = true; fl.is_unsigned_mul = false;
      return S32 (UA32 * UB32);
    }
    case MIR_UMULO: {
      uint64_t r;
      fl.uo = __builtin_mul_overflow (UA64, UB64, &r);
      fl.valid = true; fl.is_unsigned_mul = true; fl.is_signed_mul = false;
      return VI ((int64_t) r);
    }
    case MIR_UMULOS: {
      uint32_t r;
      fl.uo = __builtin_mul_overflow (UA32, UB32, &r);
      fl.valid = true; fl.is_unsigned_mul = true; fl.is_signed_mul = false;
      return S32 (r);
    }
    default: throw ModelError{strfmt ("eval3: code %d", code)};
    }
  }

  // compare-and-branch: returns whether the branch is taken
  static bool branch_taken (int code, const Val &a, const Val &b) {
    Flags fl;
    int cmp;
    switch (code) {
    case MIR_BT: return A64 != 0;
    case MIR_BF: return A64 == 0;
    case MIR_BTS: return A32 != 0;
    case MIR_BFS: return A32 == 0;
#define BR(B, C) case MIR_##B: cmp = MIR_##C; break;
      BR (BEQ, EQ) BR (BEQS, EQS) BR (FBEQ, FEQ) BR (DBEQ, DEQ) BR (LDBEQ, LDEQ)
      BR (BNE, NE) BR (BNES, NES) BR (FBNE, FNE) BR (DBNE, DNE) BR (LDBNE, LDNE)
      BR (BLT, LT) BR (BLTS, LTS) BR (UBLT, ULT) BR (UBLTS, ULTS) BR (FBLT, FLT) BR (DBLT, DLT) BR (LDBLT, LDLT)
      BR (BLE, LE) BR (BLES, LES) BR (UBLE, ULE) BR (UBLES, ULES) BR (FBLE, FLE) BR (DBLE, DLE) BR (LDBLE, LDLE)
      BR (BGT, GT) BR (BGTS, GTS) BR (UBGT, UGT) BR (UBGTS, UGTS) BR (FBGT, FGT) BR (DBGT, DGT) BR (LDBGT, LDGT)
      BR (BGE, GE) BR (BGES, GES) BR (UBGE, UGE) BR (UBGES, UGES) BR (FBGE, FGE) BR (DBGE, DGE) BR (LDBGE, LDGE)
#undef BR
    default: throw ModelError{strfmt ("branch: code %d", code)};
    }
    return eval3 (cmp, a, b, fl).i != 0;
  }
#undef A64
#undef B64
#undef UA64
#undef UB64
#undef A32
#undef B32
#undef UA32
#undef UB32
#undef S32

  static bool is_cmp_branch (int c) { return c >= MIR_BT && c <= MIR_LDBGE && c != MIR_JMP; }
  static bool is_3op_value (int c) { return c >= MIR_ADD && c <= MIR_UMULOS; }
  static bool is_2op_value (int c) { return c >= MIR_MOV && c <= MIR_LDNEG; }

  const Proto *find_proto (const Module &m, const std::string &name) {
    for (auto &p : m.protos)
      if (p.name == name) return &p;
    return nullptr;
  }

  // ------------------------------------------------------------ calls
  void call_func (const std::string &name, const std::vector<Val> &args, std::vector<Val> &res) {
    auto e = exts.find (name);
    if (e != exts.end ()) {
      CallRec rec;
      rec.name = name;
      rec.types = e->second.arg_types;
      for (size_t i = 0; i < args.size (); i++) {
        Val a = args[i];
        if (i < rec.types.size () && MIR_int_type_p ((MIR_type_t) rec.types[i])) {
          if (a.w32 && type_size (rec.types[i]) > 4) throw Undefined{"32-bit result passed as 64-bit argument"};
          a = VI (ext_by_type (rec.types[i], a.i));
        }
        rec.args.push_back (a);
      }
      log.push_back (rec);
      ext_calls++;
      res.clear ();
      e->second.fn (rec.args, res);
      for (size_t i = 0; i < res.size () && i < e->second.res_types.size (); i++)
        if (MIR_int_type_p ((MIR_type_t) e->second.res_types[i])) res[i] = VI (ext_by_type (e->second.res_types[i], res[i].i));
      return;
    }
    auto it = funcs.find (name);
    if (it == funcs.end ()) throw ModelError{"call of unknown function " + name};
    const Func &f = prog.mods[it->second.first].funcs[it->second.second];
    run (prog.mods[it->second.first], f, args, res);
  }

  void run (const Module &mod, const Func &f, const std::vector<Val> &args, std::vector<Val> &res) {
    if (++depth > max_depth) throw Undefined{"call depth"};
    calls_done++;
    Frame fr;
    fr.f = &f;
    fr.id = next_frame_id++;
    fr.regs.resize (f.regs.size ());
    if (args.size () != f.args.size ()) throw ModelError{"arity mismatch calling " + f.name};
    for (size_t i = 0; i < args.size (); i++) {
      int t = f.args[i].type;
      Val a = args[i];
      if (!a.def) throw Undefined{"unset argument"};
      if (t >= MIR_T_BLK && t < MIR_T_RBLK) {
        // by-value block: callee sees the address of a private copy
        size_t off;
        Region &src = region_of ((uint64_t) need_i64 (a), f.args[i].size, off);
        uint64_t na = new_region (f.args[i].size, true, fr.id);
        Region &dst = regions[na >> 32];
        Region &src2 = region_of ((uint64_t) a.i, f.args[i].size, off);  // (vector may have been reallocated)
        (void) src;
        memcpy (dst.bytes.data (), src2.bytes.data () + off, f.args[i].size);
        memcpy (dst.shadow.data (), src2.shadow.data () + off, f.args[i].size);
        fr.allocas.push_back ((uint32_t) (na >> 32));
        fr.regs[i] = VI ((int64_t) na);
      } else if (MIR_int_type_p ((MIR_type_t) t) || t == MIR_T_RBLK) {
        if (a.w32 && type_size (t) > 4) throw Undefined{"32-bit result passed as 64-bit argument"};
        fr.regs[i] = VI (ext_by_type (t, a.i));
      } else
        fr.regs[i] = a;
    }
    for (size_t k = 0; k < f.insns.size (); k++)
      if (f.insns[k].code == MIR_LABEL) fr.labpos[f.insns[k].ops[0].lab] = k;
    Flags fl;
    size_t pc = 0;
    auto jump = [&] (int lab) {
      auto it = fr.labpos.find (lab);
      if (it == fr.labpos.end ()) throw ModelError{"jump to unknown label"};
      if (it->second <= pc) taken_back_edges++;
      pc = it->second;
    };
    for (;;) {
      if (pc >= f.insns.size ()) throw ModelError{"fell off the end of " + f.name};
      const Insn &in = f.insns[pc];
      if (++steps > max_steps) throw Undefined{"step limit"};
      int c = in.code;
      bool flags_consumer = c == MIR_BO || c == MIR_BNO || c == MIR_UBO || c == MIR_UBNO;
      if (c == MIR_LABEL) {
        pc++;
        continue;
      }
      op_hist[insn_name (c)]++;
      if (is_2op_value (c)) {
        Val a = rd (fr, in.ops[1]);
        if (rc_int_input_2 (c) && a.w32 && !low_half_input_2 (c) && c != MIR_MOV) throw Undefined{"upper half observed"};
        Val r = eval2 (c, a);
        wr (fr, in.ops[0], r);
        fl.valid = false;
        pc++;
      } else if (is_3op_value (c)) {
        Val a = rd (fr, in.ops[1]), b = rd (fr, in.ops[2]);
        Val r = eval3 (c, a, b, fl);
        if (!MIR_overflow_insn_code_p ((MIR_insn_code_t) c)) fl.valid = false;
        wr (fr, in.ops[0], r);
        pc++;
      } else if (c == MIR_JMP) {
        jump (in.ops[0].lab);
        fl.valid = false;
      } else if (flags_consumer) {
        if (!fl.valid) throw ModelError{"overflow branch without a preceding overflow insn"};
        bool t = c == MIR_BO ? fl.so : c == MIR_BNO ? !fl.so : c == MIR_UBO ? fl.uo : !fl.uo;
        if ((c == MIR_BO || c == MIR_BNO) && fl.is_unsigned_mul) throw ModelError{"bo after umulo"};
        if ((c == MIR_UBO || c == MIR_UBNO) && fl.is_signed_mul) throw ModelError{"ubo after mulo"};
        fl.valid = false;
        if (t) jump (in.ops[0].lab);
        else pc++;
      } else if (is_cmp_branch (c)) {
        Val a = rd (fr, in.ops[1]);
        Val b = in.ops.size () > 2 ? rd (fr, in.ops[2]) : Val ();
        fl.valid = false;
        if (branch_taken (c, a, b)) jump (in.ops[0].lab);
        else pc++;
      } else if (c == MIR_SWITCH) {
        int64_t idx = need_i64 (rd (fr, in.ops[0]));
        if (idx < 0 || (size_t) idx + 1 >= in.ops.size ()) throw Undefined{"switch index out of range"};
        fl.valid = false;
        jump (in.ops[1 + idx].lab);
      } else if (c == MIR_LADDR) {
        Val v = VI ((int64_t) (((uint64_t) 0xE000 << 32) | ((uint64_t) fr.id << 16) | (uint64_t) in.ops[1].lab));
        wr (fr, in.ops[0], v);
        fl.valid = false;
        pc++;
      } else if (c == MIR_JMPI) {
        uint64_t v = (uint64_t) need_i64 (rd (fr, in.ops[0]));
        if ((v >> 32) != 0xE000 || ((v >> 16) & 0xffff) != (uint64_t) (fr.id & 0xffff)) throw Undefined{"jmpi to a non-label value"};
        fl.valid = false;
        jump ((int) (v & 0xffff));
      } else if (c == MIR_ALLOCA) {
        int64_t sz = need_i64 (rd (fr, in.ops[1]));
        if (sz < 0 || sz > (1 << 20)) throw Undefined{"alloca size"};
        uint64_t a = new_region ((size_t) sz, false, fr.id);
        fr.allocas.push_back ((uint32_t) (a >> 32));
        wr (fr, in.ops[0], VI ((int64_t) a));
        fl.valid = false;
        pc++;
      } else if (c == MIR_BSTART) {
        fr.bstart_marks.push_back (fr.allocas.size ());
        wr (fr, in.ops[0], VI ((int64_t) (((uint64_t) 0xD000 << 32) | ((uint64_t) fr.id << 16) | (fr.bstart_marks.size () - 1))));
        fl.valid = false;
        pc++;
      } else if (c == MIR_BEND) {
        uint64_t v = (uint64_t) need_i64 (rd (fr, in.ops[0]));
        if ((v >> 32) != 0xD000 || ((v >> 16) & 0xffff) != (uint64_t) (fr.id & 0xffff)) throw Undefined{"bend of a non-bstart value"};
        size_t mi = v & 0xffff;
        if (mi >= fr.bstart_marks.size ()) throw Undefined{"bend of a stale bstart"};
        size_t mark = fr.bstart_marks[mi];
        for (size_t k = mark; k < fr.allocas.size (); k++) regions[fr.allocas[k]].live = false;
        fr.allocas.resize (mark);
        fr.bstart_marks.resize (mi);
        fl.valid = false;
        pc++;
      } else if (c == MIR_CALL || c == MIR_INLINE) {
        const Proto *p = find_proto (mod, in.ops[0].ref);
        if (!p) throw ModelError{"call through unknown proto " + in.ops[0].ref};
        std::string callee;
        if (in.ops[1].k == Op::REF)
          callee = in.ops[1].ref;
        else {
          uint64_t v = (uint64_t) need_i64 (rd (fr, in.ops[1]));
          if ((v >> 32) != 0xF000 || (v & 0xffffffff) >= func_names.size ()) throw Undefined{"call of a non-function value"};
          callee = func_names[v & 0xffffffff];
        }
        size_t nres = p->res.size ();
        std::vector<Val> args, res;
        for (size_t k = 2 + nres; k < in.ops.size (); k++) {
          const Op &o = in.ops[k];
          if (o.k == Op::MEM && o.m.type >= MIR_T_BLK && o.m.type <= MIR_T_RBLK)
            args.push_back (rd (fr, Op::R (o.m.base)));  // address of the block
          else
            args.push_back (rd (fr, o));
        }
        call_func (callee, args, res);
        if (res.size () != nres) throw ModelError{"result count mismatch calling " + callee};
        for (size_t k = 0; k < nres; k++) {
          Val r = res[k];
          if (MIR_int_type_p ((MIR_type_t) p->res[k])) r = VI (ext_by_type (p->res[k], r.i));
          wr (fr, in.ops[2 + k], r);
        }
        fl.valid = false;
        pc++;
      } else if (c == MIR_RET) {
        if (in.ops.size () != f.res.size ()) throw ModelError{"ret arity in " + f.name};
        res.clear ();
        for (size_t k = 0; k < in.ops.size (); k++) {
          Val v = rd (fr, in.ops[k]);
          if (MIR_int_type_p ((MIR_type_t) f.res[k])) {
            if (v.w32 && type_size (f.res[k]) > 4) throw Undefined{"32-bit result returned as 64-bit"};
            v = VI (ext_by_type (f.res[k], v.i));
          }
          res.push_back (v);
        }
        break;
      } else
        throw ModelError{strfmt ("refeval: unsupported insn %s", insn_name (c))};
    }
    for (uint32_t r : fr.allocas) regions[r].live = false;
    depth--;
  }
  static bool rc_int_input_2 (int c) {
    return c == MIR_MOV || (c >= MIR_EXT8 && c <= MIR_UEXT32) || c == MIR_NEG || c == MIR_NEGS
           || (c >= MIR_I2F && c <= MIR_UI2LD);
  }
};

// ------------------------------------------------------------------ observation comparison
static inline bool ext_eq (int type, int64_t a, int64_t b) {
  return Evaluator::ext_by_type (type, a) == Evaluator::ext_by_type (type, b);
}
static inline bool same_val (int type, const Val &a, const Val &b) {
  switch (type) {
  case MIR_T_F: return (is_nan_f (a.f) && is_nan_f (b.f)) || memcmp (&a.f, &b.f, 4) == 0;
  case MIR_T_D: return (is_nan_d (a.d) && is_nan_d (b.d)) || memcmp (&a.d, &b.d, 8) == 0;
  case MIR_T_LD: return (is_nan_ld (a.ld) && is_nan_ld (b.ld)) || memcmp (&a.ld, &b.ld, 10) == 0;
  default: return ext_eq (type, a.i, b.i);
  }
}
static inline std::string show_val (int type, const Val &a) {
  switch (type) {
  case MIR_T_F: { uint32_t u; memcpy (&u, &a.f, 4); return strfmt ("%a(0x%08x)", (double) a.f, u); }
  case MIR_T_D: { uint64_t u; memcpy (&u, &a.d, 8); return strfmt ("%a(0x%016lx)", a.d, (unsigned long) u); }
  case MIR_T_LD: return strfmt ("%La", a.ld);
  default: return strfmt ("%ld(0x%lx)", (long) a.i, (unsigned long) a.i);
  }
}

struct Obs {
  std::vector<int> res_types;
  std::vector<Val> results;
  std::vector<CallRec> log;
  std::vector<uint8_t> buf, shadow;  // shadow only meaningful on the reference side
};

// ref carries the shadow. Returns "" when equal, else a description of the first difference.
static inline std::string compare_obs (const Obs &ref, const Obs &got) {
  if (ref.results.size () != got.results.size ()) return "result count differs";
  for (size_t i = 0; i < ref.results.size (); i++)
    if (!same_val (ref.res_types[i], ref.results[i], got.results[i]))
      return strfmt ("result %zu: expected %s got %s", i, show_val (ref.res_types[i], ref.results[i]).c_str (),
                     show_val (ref.res_types[i], got.results[i]).c_str ());
  size_t n = std::min (ref.log.size (), got.log.size ());
  for (size_t i = 0; i < n; i++) {
    if (ref.log[i].name != got.log[i].name)
      return strfmt ("external call %zu: expected %s got %s", i, ref.log[i].name.c_str (), got.log[i].name.c_str ());
    for (size_t k = 0; k < ref.log[i].args.size () && k < got.log[i].args.size (); k++)
      if (!same_val (ref.log[i].types[k], ref.log[i].args[k], got.log[i].args[k]))
        return strfmt ("external call %zu (%s) arg %zu: expected %s got %s", i, ref.log[i].name.c_str (), k,
                       show_val (ref.log[i].types[k], ref.log[i].args[k]).c_str (),
                       show_val (ref.log[i].types[k], got.log[i].args[k]).c_str ());
  }
  if (ref.log.size () != got.log.size ())
    return strfmt ("number of external calls: expected %zu got %zu", ref.log.size (), got.log.size ());
  if (ref.buf.size () != got.buf.size ()) return "buffer size differs";
  for (size_t i = 0; i < ref.buf.size (); i++) {
    uint8_t s = i < ref.shadow.size () ? ref.shadow[i] : SH_PLAIN;
    if (s >= SH_NAN_F) {
      int base = s & 0xf0, k = s & 0x0f;
      size_t start = i - k;
      size_t osz = base == SH_NAN_F ? 4 : base == SH_NAN_D ? 8 : 10;
      bool intact = start + osz <= ref.shadow.size ();
      for (size_t j = 0; intact && j < osz; j++) intact = ref.shadow[start + j] == (uint8_t) (base + j);
      // a NaN object torn by a later narrower store: its remaining bytes are payload bits, left unconstrained
      if (k == 0 && intact) {  // check once per NaN object: the engine's bytes must be a NaN of that type too
        bool ok = false;
        if (base == SH_NAN_F && start + 4 <= got.buf.size ()) { float v; memcpy (&v, &got.buf[start], 4); ok = is_nan_f (v); }
        if (base == SH_NAN_D && start + 8 <= got.buf.size ()) { double v; memcpy (&v, &got.buf[start], 8); ok = is_nan_d (v); }
        if (base == SH_NAN_LD && start + 10 <= got.buf.size ()) { long double v = 0; memcpy (&v, &got.buf[start], 10); ok = is_nan_ld (v); }
        if (!ok) return strfmt ("buffer offset %zu: expected a NaN, engine stored another value", start);
      }
      continue;
    }
    if (s == SH_UNINIT) continue;  // never written by the reference run: input bytes, compared below anyway
    if (ref.buf[i] != got.buf[i])
      return strfmt ("buffer byte %zu: expected %02x got %02x", i, ref.buf[i], got.buf[i]);
  }
  return "";
}

}  // namespace mm
