// Program generator: choice stream -> mm::Prog (construction, not rejection).
#pragma once
#include "model.h"
#include "refeval.h"
#include <set>
#include <algorithm>

namespace mm {


// ---- value grids -------------------------------------------------------------------------
static const int64_t int_grid[] = {
  0, 1, -1, 2, -2, 3, 7, 8, 15, 16, 31, 32, 63, 64, 127, 128, 129, 255, 256, 257, -128, -129,
  32767, 32768, 65535, 65536, -32768, -32769, 0x7fffffffLL, 0x80000000LL, 0xffffffffLL, 0x100000000LL, 0x100000001LL,
  -0x80000000LL, -0x80000001LL, 0x7fffffffffffffffLL, (int64_t) 0x8000000000000000ULL, (int64_t) 0x8000000000000001ULL,
  0x7ffffffffffffffeLL, 0x5555555555555555LL, (int64_t) 0xaaaaaaaaaaaaaaaaULL, 0x0123456789abcdefLL, 1000000007LL,
  (int64_t) 0xffffffff00000000ULL, 0x00000000ffff0000LL, 10, 100, -100, 5, 6, 9, 12, 24, 48, 1LL << 40, (1LL << 52) + 1,
  (1LL << 53) + 1, 0x7fffff, 0x1000001, 0xffffff80LL, 0xff80, 0x80, 0x8000};
#define N_INT_GRID ((int) (sizeof (int_grid) / sizeof (int_grid[0])))
static inline int64_t pick_int (CS &cs) {
  int k = cs.weighted ({10, 3});
  if (k == 0) return int_grid[cs.range (0, N_INT_GRID - 1)];
  return (int64_t) cs.u64 ();
}
static inline int64_t pick_small_int (CS &cs) { return int_grid[cs.range (0, 20)]; }

static inline double bits_d (uint64_t u) { double d; memcpy (&d, &u, 8); return d; }
static inline float bits_f (uint32_t u) { float f; memcpy (&f, &u, 4); return f; }
static const double d_grid[] = {0.0, 1.0, -1.0, 2.0, 0.5, -0.5, 3.0, 10.0, 1e10, -1e10, 1e-10, 1.5, 2.5, -2.5, 100.0, 255.0,
                                65536.0, 4294967296.0, 9007199254740993.0, 1e300, -1e300, 1e-300, 0.1, 0.3, 1.0 / 3,
                                2147483647.0, 2147483648.0, -2147483649.0, 9.2233720368547758e18, -9.2233720368547758e18,
                                1.8446744073709552e19, 1e19, 4.9406564584124654e-324, 2.2250738585072014e-308,
                                1.7976931348623157e308, 3.4028234663852886e38, 3.4028235677973366e38, 1.4012984643248171e-45,
                                16777217.0, 0.49999999999999994, 123456789.125};
#define N_D_GRID ((int) (sizeof (d_grid) / sizeof (d_grid[0])))
// non-finite and special doubles, only ever supplied through inputs (never as text immediates)
static inline double pick_d (CS &cs, bool finite_only) {
  int k = finite_only ? cs.weighted ({8, 0, 2}) : cs.weighted ({8, 3, 2});
  if (k == 0) {
    double v = d_grid[cs.range (0, N_D_GRID - 1)];
    return cs.chance (40) ? -v : v;
  }
  if (k == 1) {
    static const uint64_t sp[] = {0x7ff0000000000000ull, 0xfff0000000000000ull, 0x7ff8000000000000ull, 0xfff8000000000000ull,
                                  0x7ff0000000000001ull, 0x8000000000000000ull, 0x7ff8000000000123ull, 0x0000000000000001ull,
                                  0x000fffffffffffffull};
    return bits_d (sp[cs.range (0, 8)]);
  }
  double v = bits_d (cs.u64 ());
  if (finite_only && !(v - v == 0)) v = 1.25;
  return v;
}
static inline float pick_f (CS &cs, bool finite_only) {
  int k = finite_only ? cs.weighted ({8, 0, 2}) : cs.weighted ({8, 3, 2});
  if (k == 0) {
    float v = (float) d_grid[cs.range (0, N_D_GRID - 1)];
    if (finite_only && !(v - v == 0)) v = 3.5f;
    return cs.chance (40) ? -v : v;
  }
  if (k == 1) {
    static const uint32_t sp[] = {0x7f800000u, 0xff800000u, 0x7fc00000u, 0xffc00000u, 0x7f800001u, 0x80000000u, 0x00000001u, 0x007fffffu};
    return bits_f (sp[cs.range (0, 7)]);
  }
  float v = bits_f (cs.u32 ());
  if (finite_only && !(v - v == 0)) v = 1.25f;
  return v;
}
// long doubles are built from sign/exponent/mantissa so that only valid x87 encodings occur
static inline long double pick_ld (CS &cs, bool finite_only) {
  int k = finite_only ? cs.weighted ({8, 0, 2}) : cs.weighted ({8, 3, 2});
  if (k == 0) {
    long double v = (long double) d_grid[cs.range (0, N_D_GRID - 1)];
    if (cs.chance (60)) v += 1e-19L * (long double) cs.range (0, 7);
    return cs.chance (40) ? -v : v;
  }
  if (k == 1) {
    switch (cs.range (0, 4)) {
    case 0: return __builtin_infl ();
    case 1: return -__builtin_infl ();
    case 2: return __builtin_nanl ("");
    case 3: return -0.0L;
    default: return LDBL_MAX;
    }
  }
  uint64_t mant = cs.u64 () | 0x8000000000000000ull;  // explicit integer bit set: normal number
  int exp = (int) cs.range (1, 0x7ffe);
  bool neg = cs.flip ();
  uint8_t b[16] = {0};
  memcpy (b, &mant, 8);
  uint16_t se = (uint16_t) (exp | (neg ? 0x8000 : 0));
  memcpy (b + 8, &se, 2);
  long double v;
  memcpy (&v, b, 16);
  return v;
}

// ---- generator configuration --------------------------------------------------------------
struct GenCfg {
  int max_funcs = 3;
  int max_blocks = 8;
  int max_insns = 8;
  int max_fuel = 40;
  bool fp = true, ld = true, calls = true, exts = true, allocas = true, indirect = true, overflow = true;
  bool jmpi = true;          // laddr + jmpi terminators
  bool callbacks = false;       // a native that calls back a generated function through its address
  bool abs_mem = true;          // absolute-address memory forms (need the fixed-address buffer)
  bool const_branches = true;   // compare-and-branch / bt / bf with only immediate operands (folded by GVN)
  bool single_switch = true;    // switch with a single target
  bool narrow_sigs = true;   // narrow integer argument / result types on inner functions
  bool mem_operands = true;  // memory operands directly in arithmetic insns
  bool inline_insn = true;   // use `inline` as well as `call`
  bool multi_module = false; // spread functions over modules with import/export
  int min_funcs = 1;
  bool ext_chains = false;     // pairs of dependent [u]ext insns
  bool fp_mem_no_base_index = false;
  bool single_item_sections = false;
  bool passive_data = false;   // data sections (named head + anonymous members) that no code refers to
  bool blk_args = true;        // block (by value aggregate) arguments
  bool layered_modules = false;  // calls go to the same or an earlier module only
  bool passive_items = false;  // lref tables of function labels and a never-called function with a hard-register variable
  int forward_calls_chance = 0;  // of 256: the callee is a function generated after the caller (no recursion through it)
  int first_block_calls = 0;   // up to this many calls at the start of the first block (always executed)
  int prologue_alloca_chance = 100;  // of 256
  bool dump_allocas = false;   // the first words of every alloca block are copied to the buffer before the final ret
  bool force_allocas = false;
  bool force_calls = false;    // the per-case feature toggles may not switch calls off
  bool multi_ret = false;      // early ret insns (several returns per function)
  int ret_weight = 1;          // weight of the `leave the function` terminator
  bool prologue_alloca = false;  // some functions start with an alloca (a `top` alloca for the inliner)
  int call_weight = 3;         // weight of call insns among the instruction kinds
  bool wide_sigs = false;      // some inner functions take 7-14 arguments, mostly of one register kind
  bool single_result = false;  // C20: at most one result per function
  bool no_ld_imm = false;
  bool alias = true;
};

struct Features {
  bool irreducible = false, has_switch = false, jmpi = false, fp = false, ld = false, alloca = false, spill = false,
       call = false, ext = false, overflow = false, mem = false, indirect = false, inline_i = false, narrow = false,
       blkarg = false, multi_res = false, memop = false, wide = false, fp8 = false, multi_ret = false;
};

struct FuncSig {
  std::string name;
  std::vector<int> res;
  std::vector<Arg> args;
  int module = 0;
};

// the fixed externals (natives in the harness; models in refeval)
static inline std::vector<Proto> ext_protos () {
  std::vector<Proto> v;
  Proto p;
  p.name = "p_ext_ii"; p.res = {MIR_T_I64}; p.args = {{MIR_T_I64, "a"}, {MIR_T_I64, "b"}}; v.push_back (p);
  p.name = "p_ext_d"; p.res = {MIR_T_D}; p.args = {{MIR_T_D, "x"}, {MIR_T_I64, "n"}}; v.push_back (p);
  p.name = "p_ext_mix"; p.res = {MIR_T_I32};
  p.args = {{MIR_T_I32, "a"}, {MIR_T_U8, "b"}, {MIR_T_D, "c"}, {MIR_T_F, "d"}, {MIR_T_I16, "e"}, {MIR_T_U32, "f"}, {MIR_T_I8, "g"}};
  v.push_back (p);
  p.name = "p_ext_ld"; p.res = {MIR_T_LD}; p.args = {{MIR_T_LD, "x"}, {MIR_T_I64, "n"}}; v.push_back (p);
  p.name = "p_ext_many"; p.res = {MIR_T_I64};
  p.args = {{MIR_T_I64, "a"}, {MIR_T_I64, "b"}, {MIR_T_I64, "c"}, {MIR_T_I64, "d"}, {MIR_T_I64, "e"}, {MIR_T_I64, "f"},
            {MIR_T_I64, "g"}, {MIR_T_D, "h"}, {MIR_T_I64, "i"}};
  v.push_back (p);
  p.name = "p_ext_cb"; p.res = {MIR_T_I64}; p.args = {{MIR_T_P, "fn"}, {MIR_T_I64, "depth"}, {MIR_T_P, "buf"}};
  v.push_back (p);
  return v;
}

struct ProgGen {
  CS &cs;
  GenCfg cfg;
  Features feat;
  Prog prog;
  std::vector<FuncSig> sigs;
  ProgGen (CS &c, const GenCfg &g) : cs (c), cfg (g) {}

  // per function state
  Func *f = nullptr;
  std::vector<int> w64, w32, fr, dr, ldr, addr;  // register indexes per class
  std::vector<int> wide_idx;                     // functions with a wide signature
  int r_fuel = -1, r_buf = -1, r_depth = -1, r_idx = -1, r_tmp = -1, r_lab = -1, r_lab2 = -1;
  int exit_label = -1;
  std::vector<int> block_labels;
  struct AllocaInfo { int reg; int size; };
  std::vector<AllocaInfo> allocas;
  int func_index = 0;

  int pick (const std::vector<int> &v) { return v[cs.range (0, v.size () - 1)]; }

  // ---- operands
  Op int_src64 (bool allow_mem = true) {
    int k = cs.weighted ({8, 4, (cfg.mem_operands && allow_mem) ? 2 : 0});
    if (k == 0) return Op::R (pick (w64));
    if (k == 1) return Op::I (pick_int (cs));
    feat.memop = true;
    return mem_op (int_mem_type (true), false);
  }
  Op int_src32 (bool allow_mem = true) {
    int k = cs.weighted ({6, 4, 4, (cfg.mem_operands && allow_mem) ? 2 : 0});
    if (k == 0) return Op::R (pick (w64));
    if (k == 1 && !w32.empty ()) return Op::R (pick (w32));
    if (k <= 2) return Op::I (pick_int (cs));
    feat.memop = true;
    return mem_op (int_mem_type (true), false);
  }
  int int_mem_type (bool any) {
    static const int t[] = {MIR_T_I64, MIR_T_I32, MIR_T_U32, MIR_T_I8, MIR_T_U8, MIR_T_I16, MIR_T_U16, MIR_T_U64};
    return t[cs.range (0, any ? 7 : 0)];
  }
  // memory operand inside the observed buffer; every byte of it is initialised by the harness
  // Buffer zones (keeps every typed access well defined): [0,192) any bit patterns (ints, floats, doubles);
  // [192,256) four valid x87 long doubles. LD accesses touch only the LD zone; other stores only [0,192).
  Op mem_op (int type, bool store) {
    feat.mem = true;
    if (type == MIR_T_LD) return Op::M (type, (int64_t) (192 + cs.range (0, 3) * 16), r_buf);
    int sz = type_size (type);
    int lim = store ? 192 : MM_BUF_SIZE;  // exclusive end of the allowed zone
    int form = cs.weighted ({5, 3, 3, cfg.abs_mem ? 2 : 0, cfg.abs_mem ? 1 : 0});
    // F62: base + index addressing of an FP operand can need three integer reload registers
    if (cfg.fp_mem_no_base_index && (type == MIR_T_F || type == MIR_T_D) && (form == 1 || form == 2)) form = 0;
    Op o;
    // allocas: only the initialised first 16 bytes, base+disp form
    if (!allocas.empty () && cs.chance (50) && sz <= 8) {
      AllocaInfo &a = allocas[cs.range (0, allocas.size () - 1)];
      return Op::M (type, (int64_t) (cs.range (0, (16 - sz) / sz) * sz), a.reg);
    }
    switch (form) {
    case 0: {  // disp(base)
      int64_t disp = (int64_t) (cs.range (0, (lim - sz) / sz) * sz);
      if (cs.chance (30)) disp = (int64_t) cs.range (0, lim - sz);  // unaligned
      o = Op::M (type, disp, r_buf);
      break;
    }
    case 1: {  // (base, index, scale)
      int scale = 1 << cs.range (0, 3);
      o = Op::M (type, 0, r_buf, r_idx, scale);
      break;
    }
    case 2: {  // disp(base, index, scale)
      int scale = 1 << cs.range (0, 3);
      o = Op::M (type, (int64_t) cs.range (0, lim - 15 * 8 - 8), r_buf, r_idx, scale);
      break;
    }
    case 3:  // absolute displacement
      o = Op::M (type, (int64_t) (MM_BUF_ADDR + cs.range (0, (lim - sz) / sz) * sz), -1);
      break;
    default: {  // disp(index, scale) without base
      int scale = 1 << cs.range (0, 3);
      o = Op::M (type, (int64_t) (MM_BUF_ADDR + cs.range (0, lim - 15 * 8 - 8)), -1, r_idx, scale);
      break;
    }
    }
    if (cfg.alias && form == 0 && cs.chance (60)) {
      // type-based style alias names: lower half "al1", upper half "al2" (disjoint by construction)
      if (o.m.disp + sz <= MM_BUF_SIZE / 2) o.m.alias = 1;
      else if (o.m.disp >= MM_BUF_SIZE / 2) o.m.alias = 2;
    }
    return o;
  }
  // r_idx is kept in 0..15 at all times; refresh it from a random register now and then
  void refresh_idx () { f->add (MIR_AND, {Op::R (r_idx), Op::R (pick (w64)), Op::I (15)}); }

  Op f_src (RC rc, bool allow_mem = true) {
    const std::vector<int> &v = rc == FR ? fr : rc == DR ? dr : ldr;
    int k = cs.weighted ({8, 3, (cfg.mem_operands && allow_mem) ? 2 : 0});
    if (k == 0) return Op::R (pick (v));
    if (k == 1) {
      if (rc == FR) return Op::F (pick_f (cs, true));
      if (rc == DR) return Op::D (pick_d (cs, true));
      if (!cfg.no_ld_imm) return Op::LD (pick_ld (cs, true));
      return Op::R (pick (v));
    }
    feat.memop = true;
    return mem_op (rc == FR ? MIR_T_F : rc == DR ? MIR_T_D : MIR_T_LD, false);
  }

  // ---- one random non-terminator instruction (may emit a short sequence)
  void gen_insn () {
    std::vector<int> w = {10, 7, 4, (cfg.fp && !dr.empty ()) ? 6 : 0, cfg.fp ? 3 : 0, cfg.fp ? 3 : 0, 5, 4,
                          (cfg.calls || cfg.exts) ? cfg.call_weight : 0, cfg.allocas ? 1 : 0, 2};
    int k = cs.weightedv (w);
    switch (k) {
    case 0: {  // 64-bit integer binary op
      static const int ops[] = {MIR_ADD, MIR_SUB, MIR_MUL, MIR_AND, MIR_OR, MIR_XOR, MIR_LSH, MIR_RSH, MIR_URSH, MIR_DIV,
                                MIR_MOD, MIR_UDIV, MIR_UMOD, MIR_EQ, MIR_NE, MIR_LT, MIR_LE, MIR_GT, MIR_GE, MIR_ULT, MIR_ULE,
                                MIR_UGT, MIR_UGE};
      int op = ops[cs.range (0, 22)];
      Op a = int_src64 (), b;
      if (op == MIR_LSH || op == MIR_RSH || op == MIR_URSH) {
        if (cs.chance (128)) b = Op::I ((int64_t) cs.range (0, 63));
        else {
          f->add (MIR_AND, {Op::R (r_tmp), Op::R (pick (w64)), Op::I (63)});
          b = Op::R (r_tmp);
        }
      } else if (op == MIR_DIV || op == MIR_MOD || op == MIR_UDIV || op == MIR_UMOD) {
        if (cs.chance (128)) {
          int64_t v = pick_int (cs);
          if (v == 0) v = 3;
          if (v == -1) v = -7;
          b = Op::I (v);
        } else {
          f->add (MIR_OR, {Op::R (r_tmp), Op::R (pick (w64)), Op::I (cs.chance (128) ? 2 : 4)});
          b = Op::R (r_tmp);  // nonzero and never -1
        }
      } else
        b = int_src64 ();
      if (a.k == Op::MEM && b.k == Op::MEM && cs.flip ()) b = Op::R (pick (w64));
      f->add (op, {int_dst (false), a, b});
      break;
    }
    case 1: {  // 32-bit integer binary op
      static const int ops[] = {MIR_ADDS, MIR_SUBS, MIR_MULS, MIR_ANDS, MIR_ORS, MIR_XORS, MIR_LSHS, MIR_RSHS, MIR_URSHS,
                                MIR_DIVS, MIR_MODS, MIR_UDIVS, MIR_UMODS, MIR_EQS, MIR_NES, MIR_LTS, MIR_LES, MIR_GTS, MIR_GES,
                                MIR_ULTS, MIR_ULES, MIR_UGTS, MIR_UGES};
      int op = ops[cs.range (0, 22)];
      Op a = int_src32 (), b;
      if (op == MIR_LSHS || op == MIR_RSHS || op == MIR_URSHS) {
        if (cs.chance (128)) b = Op::I ((int64_t) cs.range (0, 31));
        else {
          f->add (MIR_AND, {Op::R (r_tmp), Op::R (pick (w64)), Op::I (31)});
          b = Op::R (r_tmp);
        }
      } else if (op == MIR_DIVS || op == MIR_MODS || op == MIR_UDIVS || op == MIR_UMODS) {
        if (cs.chance (128)) {
          int64_t v = pick_int (cs);
          if ((int32_t) v == 0) v = 3;
          if ((int32_t) v == -1) v = -7;
          b = Op::I (v);
        } else {
          f->add (MIR_OR, {Op::R (r_tmp), Op::R (pick (w64)), Op::I (cs.chance (128) ? 2 : 4)});
          f->add (MIR_AND, {Op::R (r_tmp), Op::R (r_tmp), Op::I (0x7ffffffe)});  // low half: nonzero, not -1
          b = Op::R (r_tmp);
        }
      } else
        b = int_src32 ();
      if (a.k == Op::MEM && b.k == Op::MEM && cs.flip ()) b = Op::R (pick (w64));
      f->add (op, {int_dst (true), a, b});
      break;
    }
    case 2: {  // unary integer
      static const int ops[] = {MIR_MOV, MIR_EXT8, MIR_EXT16, MIR_EXT32, MIR_UEXT8, MIR_UEXT16, MIR_UEXT32, MIR_NEG, MIR_NEGS};
      int op = ops[cs.range (0, 8)];
      if (op == MIR_MOV || op == MIR_NEG) f->add (op, {int_dst (false), int_src64 ()});
      else if (op == MIR_NEGS) f->add (op, {int_dst (true), int_src32 ()});
      else if (cfg.ext_chains && cs.chance (128)) {  // an extension of an extension, usually narrow then wider; the result is stored
        static const int narrow[] = {MIR_EXT8, MIR_UEXT8, MIR_EXT16, MIR_UEXT16}, wider[] = {MIR_UEXT16, MIR_EXT16, MIR_UEXT32, MIR_EXT32};
        int r1 = pick (w64), r2 = pick (w64);
        bool ordered = cs.chance (200);
        f->add (ordered ? narrow[cs.range (0, 3)] : op, {Op::R (r1), int_src32 ()});
        f->add (ordered ? wider[cs.range (0, 3)] : ops[cs.range (1, 6)], {Op::R (r2), Op::R (r1)});
        f->add (MIR_MOV, {Op::M (MIR_T_I64, (int64_t) (cs.range (0, 22) * 8), r_buf), Op::R (r2)});
      } else
        f->add (op, {int_dst (false), int_src32 ()});
      break;
    }
    case 3: {  // FP arithmetic
      RC rc = fp_class ();
      int base = rc == FR ? 1 : rc == DR ? 2 : 3;
      static const int ops[4][4] = {{0}, {MIR_FADD, MIR_FSUB, MIR_FMUL, MIR_FDIV}, {MIR_DADD, MIR_DSUB, MIR_DMUL, MIR_DDIV},
                                    {MIR_LDADD, MIR_LDSUB, MIR_LDMUL, MIR_LDDIV}};
      int k2 = (int) cs.range (0, 5);
      feat.fp = true;
      if (rc == LDR) feat.ld = true;
      if (k2 < 4) {
        Op a = f_src (rc), b = f_src (rc);
        if (a.k == Op::MEM && b.k == Op::MEM) b = Op::R (pick (rc == FR ? fr : rc == DR ? dr : ldr));
        f->add (ops[base][k2], {f_dst (rc), a, b});
      } else if (k2 == 4)
        f->add (rc == FR ? MIR_FNEG : rc == DR ? MIR_DNEG : MIR_LDNEG, {f_dst (rc), f_src (rc)});
      else
        f->add (rc == FR ? MIR_FMOV : rc == DR ? MIR_DMOV : MIR_LDMOV, {f_dst (rc), f_src (rc)});
      break;
    }
    case 4: {  // FP compare into an integer register
      RC rc = fp_class ();
      static const int ops[3][6] = {{MIR_FEQ, MIR_FNE, MIR_FLT, MIR_FLE, MIR_FGT, MIR_FGE},
                                    {MIR_DEQ, MIR_DNE, MIR_DLT, MIR_DLE, MIR_DGT, MIR_DGE},
                                    {MIR_LDEQ, MIR_LDNE, MIR_LDLT, MIR_LDLE, MIR_LDGT, MIR_LDGE}};
      feat.fp = true;
      Op a = f_src (rc), b = f_src (rc);
      if (a.k == Op::MEM && b.k == Op::MEM) b = Op::R (pick (rc == FR ? fr : rc == DR ? dr : ldr));
      f->add (ops[rc == FR ? 0 : rc == DR ? 1 : 2][cs.range (0, 5)], {int_dst (false), a, b});
      break;
    }
    case 5: {  // conversions
      feat.fp = true;
      int k2 = cs.weighted ({3, 3, 2, 3, 1});
      if (k2 == 0) {  // int -> fp
        RC rc = fp_class ();
        int op = rc == FR ? MIR_I2F : rc == DR ? MIR_I2D : MIR_I2LD;
        if (cs.flip ()) op = rc == FR ? MIR_UI2F : rc == DR ? MIR_UI2D : MIR_UI2LD;
        f->add (op, {f_dst (rc), int_src64 ()});
      } else if (k2 == 1) {  // fp -> fp
        RC from = fp_class (), to = fp_class ();
        if (from == to) {
          f->add (from == FR ? MIR_FMOV : from == DR ? MIR_DMOV : MIR_LDMOV, {f_dst (to), f_src (from)});
        } else {
          int op = from == FR ? (to == DR ? MIR_F2D : MIR_F2LD) : from == DR ? (to == FR ? MIR_D2F : MIR_D2LD)
                                                                            : (to == FR ? MIR_LD2F : MIR_LD2D);
          f->add (op, {f_dst (to), f_src (from)});
        }
      } else if (k2 == 2) {  // fp -> int on a value made small first: x = i2d (r & 0xffff) * 0.75
        RC rc = fp_class ();
        const std::vector<int> &v = rc == FR ? fr : rc == DR ? dr : ldr;
        int t = pick (v);
        f->add (MIR_AND, {Op::R (r_tmp), Op::R (pick (w64)), Op::I (0xffffff)});
        f->add (MIR_SUB, {Op::R (r_tmp), Op::R (r_tmp), Op::I (0x7fffff)});
        f->add (rc == FR ? MIR_I2F : rc == DR ? MIR_I2D : MIR_I2LD, {Op::R (t), Op::R (r_tmp)});
        if (rc == FR) f->add (MIR_FMUL, {Op::R (t), Op::R (t), Op::F (0.75f)});
        else if (rc == DR) f->add (MIR_DMUL, {Op::R (t), Op::R (t), Op::D (0.75)});
        f->add (rc == FR ? MIR_F2I : rc == DR ? MIR_D2I : MIR_LD2I, {int_dst (false), Op::R (t)});
      } else if (k2 == 3) {  // fp -> int of an arbitrary register value (may be out of range => discarded)
        RC rc = fp_class ();
        f->add (rc == FR ? MIR_F2I : rc == DR ? MIR_D2I : MIR_LD2I, {int_dst (false), f_src (rc, false)});
      } else {
        RC rc = fp_class ();
        f->add (rc == FR ? MIR_UI2F : rc == DR ? MIR_UI2D : MIR_UI2LD, {f_dst (rc), Op::R (pick (w64))});
      }
      break;
    }
    case 6: {  // store
      int k2 = cs.weighted ({6, cfg.fp ? 3 : 0});
      if (cs.chance (80)) refresh_idx ();
      if (k2 == 0) {
        int t = int_mem_type (true);
        Op src = (type_size (t) <= 4 && !w32.empty () && cs.flip ()) ? Op::R (pick (w32)) : cs.chance (60) ? Op::I (pick_int (cs)) : Op::R (pick (w64));
        f->add (MIR_MOV, {mem_op (t, true), src});
      } else {
        RC rc = fp_class ();
        feat.fp = true;
        f->add (rc == FR ? MIR_FMOV : rc == DR ? MIR_DMOV : MIR_LDMOV,
                {mem_op (rc == FR ? MIR_T_F : rc == DR ? MIR_T_D : MIR_T_LD, true), f_src (rc, false)});
      }
      break;
    }
    case 7: {  // load
      int k2 = cs.weighted ({6, cfg.fp ? 3 : 0});
      if (cs.chance (80)) refresh_idx ();
      if (k2 == 0) f->add (MIR_MOV, {int_dst (false), mem_op (int_mem_type (true), false)});
      else {
        RC rc = fp_class ();
        feat.fp = true;
        f->add (rc == FR ? MIR_FMOV : rc == DR ? MIR_DMOV : MIR_LDMOV,
                {f_dst (rc), mem_op (rc == FR ? MIR_T_F : rc == DR ? MIR_T_D : MIR_T_LD, false)});
      }
      break;
    }
    case 8: gen_call (); break;
    case 9: gen_alloca (); break;
    default: {  // memory-to-memory or immediate-to-memory arithmetic (dst memory)
      if (!cfg.mem_operands) { f->add (MIR_ADD, {int_dst (false), int_src64 (false), int_src64 (false)}); break; }
      feat.memop = true;
      static const int ops[] = {MIR_ADD, MIR_SUB, MIR_AND, MIR_OR, MIR_XOR, MIR_MUL};
      int t = cs.flip () ? MIR_T_I64 : int_mem_type (true);
      f->add (ops[cs.range (0, 5)], {mem_op (t, true), int_src64 (false), int_src64 (false)});
      break;
    }
    }
  }
  RC fp_class () {
    std::vector<int> w = {fr.empty () ? 0 : 3, dr.empty () ? 0 : 5, (ldr.empty () || !cfg.ld) ? 0 : 2};
    int k = cs.weightedv (w);
    return k == 0 ? FR : k == 1 ? DR : LDR;
  }
  Op int_dst (bool is32) {
    if (is32) {
      // an `S` result may only go to a W32 register or to memory of at most 32 bits
      if (!w32.empty () && !cs.chance (40)) return Op::R (pick (w32));
      if (cfg.mem_operands && cs.chance (128)) {
        static const int t[] = {MIR_T_I32, MIR_T_U32, MIR_T_I8, MIR_T_U8, MIR_T_I16, MIR_T_U16};
        feat.memop = true;
        return mem_op (t[cs.range (0, 5)], true);
      }
      if (!w32.empty ()) return Op::R (pick (w32));
      static const int t[] = {MIR_T_I32, MIR_T_U32};
      return mem_op (t[cs.range (0, 1)], true);
    }
    int k = cs.weighted ({10, w32.empty () ? 0 : 1, cfg.mem_operands ? 1 : 0});
    if (k == 0) return Op::R (pick (w64));
    if (k == 1) return Op::R (pick (w32));  // a full 64-bit value in a W32 register is fine (readers use the low half)
    feat.memop = true;
    return mem_op (int_mem_type (true), true);
  }
  Op f_dst (RC rc) {
    const std::vector<int> &v = rc == FR ? fr : rc == DR ? dr : ldr;
    if (cfg.mem_operands && cs.chance (20)) {
      feat.memop = true;
      return mem_op (rc == FR ? MIR_T_F : rc == DR ? MIR_T_D : MIR_T_LD, true);
    }
    return Op::R (pick (v));
  }

  void gen_alloca () {
    if (allocas.size () >= 2 || addr.empty ()) return;
    feat.alloca = true;
    int reg = addr[allocas.size ()];
    if (cs.flip ())
      f->add (MIR_ALLOCA, {Op::R (reg), Op::I ((int64_t) (16 + cs.range (0, 6) * 8))});
    else {
      f->add (MIR_AND, {Op::R (r_tmp), Op::R (pick (w64)), Op::I (0x78)});
      f->add (MIR_ADD, {Op::R (r_tmp), Op::R (r_tmp), Op::I (16)});
      f->add (MIR_ALLOCA, {Op::R (reg), Op::R (r_tmp)});
    }
    // written before read
    f->add (MIR_MOV, {Op::M (MIR_T_I64, 0, reg), Op::R (pick (w64))});
    f->add (MIR_MOV, {Op::M (MIR_T_I64, 8, reg), Op::I (pick_int (cs))});
    allocas.push_back ({reg, 16});
  }

  // argument operand for a parameter of MIR type t
  Op arg_for (int t) {
    switch (t) {
    case MIR_T_F: return f_src (FR, false);
    case MIR_T_D: return f_src (DR, false);
    case MIR_T_LD: return f_src (LDR, false);
    case MIR_T_P: return Op::R (r_buf);
    case MIR_T_I32: case MIR_T_U32: case MIR_T_I16: case MIR_T_U16: case MIR_T_I8: case MIR_T_U8: {
      feat.narrow = true;
      Op o = int_src32 (false);
      return o;
    }
    default: return int_src64 (false);
    }
  }
  int res_reg_for (int t) {
    switch (t) {
    case MIR_T_F: return pick (fr);
    case MIR_T_D: return pick (dr);
    case MIR_T_LD: return pick (ldr);
    default: return pick (w64);
    }
  }
  bool sig_usable (const std::vector<int> &res, const std::vector<Arg> &args) {
    for (int t : res)
      if ((t == MIR_T_F && fr.empty ()) || (t == MIR_T_D && dr.empty ()) || (t == MIR_T_LD && ldr.empty ())) return false;
    for (auto &a : args)
      if ((a.type == MIR_T_F && fr.empty ()) || (a.type == MIR_T_D && dr.empty ()) || (a.type == MIR_T_LD && ldr.empty ()))
        return false;
    return true;
  }

  std::set<std::string> used_protos;  // per module
  std::vector<std::set<std::string>> mod_protos, mod_imports;
  bool has_cbf = false;
  int cbf_module = 0;

  void gen_call () {
    bool to_ext = cfg.exts && (!cfg.calls || sigs.size () <= 1 || cs.chance (100));
    if (cfg.callbacks && has_cbf && cs.chance (60)) {
      // native code re-enters MIR through the public address of a generated function
      feat.ext = true;
      int skip = f->new_label ();
      f->add (MIR_BLE, {Op::L (skip), Op::R (r_depth), Op::I (0)});
      f->add (MIR_SUB, {Op::R (r_tmp), Op::R (r_depth), Op::I (1)});
      int ar = addr.back ();
      f->add (MIR_MOV, {Op::R (ar), Op::Ref ("cbf")});
      int my_mod = sigs[func_index].module;
      mod_protos[my_mod].insert ("p_ext_cb");
      mod_imports[my_mod].insert ("ext_cb");
      if (cbf_module != my_mod) mod_imports[my_mod].insert ("cbf");
      f->insns.emplace_back (MIR_CALL, std::vector<Op>{Op::Ref ("p_ext_cb"), Op::Ref ("ext_cb"), Op::R (pick (w64)), Op::R (ar), Op::R (r_tmp), Op::R (r_buf)});
      f->label (skip);
      return;
    }
    if (to_ext) {
      static const std::vector<Proto> eps = ext_protos ();
      const Proto &p = eps[cs.range (0, eps.size () - 2)];  /* the last one (ext_cb) is used only by the callback form */
      if (!sig_usable (p.res, p.args)) return;
      if (p.name == "p_ext_ld" && !cfg.ld) return;
      feat.ext = true;
      std::vector<Op> ops = {Op::Ref (p.name), Op::Ref (p.name.substr (2))};
      for (int t : p.res) ops.push_back (Op::R (res_reg_for (t)));
      for (auto &a : p.args) ops.push_back (arg_for (a.type));
      mod_protos[sigs[func_index].module].insert (p.name);
      mod_imports[sigs[func_index].module].insert (p.name.substr (2));
      f->insns.emplace_back (MIR_CALL, ops);
      return;
    }
    if (!cfg.calls) return;
    // call any generated function (recursion included): guarded by depth
    int callee = (int) cs.range (0, sigs.size () - 1);
    if (callee == 0) callee = (int) cs.range (0, sigs.size () - 1);  // entry is a less likely callee
    if (cfg.wide_sigs && !wide_idx.empty () && cs.chance (128)) callee = wide_idx[cs.range (0, wide_idx.size () - 1)];
    // mostly acyclic call graphs keep link-time inlining within its growth budget (later call sites are still inlined)
    if (cfg.forward_calls_chance > 0 && func_index + 1 < (int) sigs.size () && cs.chance (cfg.forward_calls_chance))
      callee = (int) cs.range (func_index + 1, sigs.size () - 1);
    if (cfg.layered_modules)  // a module only calls into itself and modules loaded before it (it can be linked before later ones exist)
      for (int tries = 0; sigs[callee].module > sigs[func_index].module && tries < (int) sigs.size (); tries++)
        callee = (callee + 1) % (int) sigs.size ();
    const FuncSig &s = sigs[callee];
    if (!sig_usable (s.res, s.args)) return;
    feat.call = true;
    int skip = f->new_label ();
    f->add (MIR_BLE, {Op::L (skip), Op::R (r_depth), Op::I (0)});
    f->add (MIR_SUB, {Op::R (r_tmp), Op::R (r_depth), Op::I (1)});
    std::string pname = "p_" + s.name;
    Op target = Op::Ref (s.name);
    int my_mod = sigs[func_index].module;
    if (s.module != my_mod) mod_imports[my_mod].insert (s.name);
    mod_protos[my_mod].insert (pname);
    if (cfg.indirect && cs.chance (60)) {
      feat.indirect = true;
      int ar = addr.back ();  // scratch ADDR-class register (never an alloca holder: see setup)
      f->add (MIR_MOV, {Op::R (ar), Op::Ref (s.name)});
      target = Op::R (ar);
    }
    std::vector<Op> ops = {Op::Ref (pname), target};
    // result registers are pairwise distinct: the order in which results are assigned is not specified
    std::vector<int> used_res;
    for (int t : s.res) {
      int r = res_reg_for (t);
      const std::vector<int> &cls = t == MIR_T_F ? fr : t == MIR_T_D ? dr : t == MIR_T_LD ? ldr : w64;
      for (size_t k = 0; k < cls.size () && std::find (used_res.begin (), used_res.end (), r) != used_res.end (); k++)
        r = cls[k];
      if (std::find (used_res.begin (), used_res.end (), r) != used_res.end ()) {  // class too small: no call
        f->label (skip);
        return;
      }
      used_res.push_back (r);
      ops.push_back (Op::R (r));
    }
    if (s.res.size () > 1) feat.multi_res = true;
    for (size_t i = 0; i < s.args.size (); i++) {
      if (i == 0) ops.push_back (Op::R (r_tmp));  // depth - 1
      else if (s.args[i].type >= MIR_T_BLK && s.args[i].type < MIR_T_RBLK) {
        feat.blkarg = true;
        Op o;
        o.k = Op::MEM;
        o.m.type = s.args[i].type;
        o.m.disp = (int64_t) s.args[i].size;
        o.m.base = r_buf;
        ops.push_back (o);
      } else
        ops.push_back (arg_for (s.args[i].type));
    }
    bool inl = cfg.inline_insn && cs.chance (80) && target.k == Op::REF;
    if (inl) feat.inline_i = true;
    f->insns.emplace_back (inl ? MIR_INLINE : MIR_CALL, ops);
    f->label (skip);
  }

  // ---- terminators
  int some_label () { return block_labels[cs.range (0, block_labels.size () - 1)]; }
  void gen_terminator (int next_label) {
    int k = cs.weightedv ({4, 6, 3, cfg.fp ? 3 : 0, 2, (cfg.indirect && cfg.jmpi) ? 2 : 0, cfg.overflow ? 3 : 0, cfg.ret_weight});
    switch (k) {
    case 0: f->add (MIR_JMP, {Op::L (some_label ())}); break;
    case 1: {  // integer compare and branch
      static const int ops[] = {MIR_BEQ, MIR_BNE, MIR_BLT, MIR_BLE, MIR_BGT, MIR_BGE, MIR_UBLT, MIR_UBLE, MIR_UBGT, MIR_UBGE,
                                MIR_BEQS, MIR_BNES, MIR_BLTS, MIR_BLES, MIR_BGTS, MIR_BGES, MIR_UBLTS, MIR_UBLES, MIR_UBGTS, MIR_UBGES};
      int i = (int) cs.range (0, 19);
      Op a = i < 10 ? int_src64 () : int_src32 (), b = i < 10 ? int_src64 (false) : int_src32 (false);
      if (!cfg.const_branches && a.k == Op::INT && b.k == Op::INT) a = Op::R (pick (w64));
      if (!cfg.const_branches && a.k == Op::REG && b.k == Op::REG && a.reg == b.reg) b = Op::I (pick_int (cs));
      f->add (ops[i], {Op::L (some_label ()), a, b});
      f->add (MIR_JMP, {Op::L (cs.flip () ? next_label : some_label ())});
      break;
    }
    case 2: {
      static const int ops[] = {MIR_BT, MIR_BF, MIR_BTS, MIR_BFS};
      int i = (int) cs.range (0, 3);
      Op a = i < 2 ? int_src64 () : int_src32 ();
      if (!cfg.const_branches && a.k == Op::INT) a = Op::R (pick (w64));
      f->add (ops[i], {Op::L (some_label ()), a});
      f->add (MIR_JMP, {Op::L (cs.flip () ? next_label : some_label ())});
      break;
    }
    case 3: {
      RC rc = fp_class ();
      static const int ops[3][6] = {{MIR_FBEQ, MIR_FBNE, MIR_FBLT, MIR_FBLE, MIR_FBGT, MIR_FBGE},
                                    {MIR_DBEQ, MIR_DBNE, MIR_DBLT, MIR_DBLE, MIR_DBGT, MIR_DBGE},
                                    {MIR_LDBEQ, MIR_LDBNE, MIR_LDBLT, MIR_LDBLE, MIR_LDBGT, MIR_LDBGE}};
      feat.fp = true;
      Op a = f_src (rc), b = f_src (rc, false);
      if (!cfg.const_branches && a.k != Op::REG && a.k != Op::MEM && b.k != Op::REG) a = Op::R (pick (rc == FR ? fr : rc == DR ? dr : ldr));
      f->add (ops[rc == FR ? 0 : rc == DR ? 1 : 2][cs.range (0, 5)], {Op::L (some_label ()), a, b});
      f->add (MIR_JMP, {Op::L (cs.flip () ? next_label : some_label ())});
      break;
    }
    case 4: {  // switch on a masked value
      feat.has_switch = true;
      int n = (int) cs.range (cfg.single_switch ? 1 : 2, 6);
      f->add (MIR_UMOD, {Op::R (r_tmp), Op::R (pick (w64)), Op::I (n)});
      std::vector<Op> ops = {Op::R (r_tmp)};
      for (int i = 0; i < n; i++) ops.push_back (Op::L (some_label ()));
      f->insns.emplace_back (MIR_SWITCH, ops);
      break;
    }
    case 5: {  // computed goto
      feat.jmpi = true;
      int l1 = some_label (), l2 = some_label (), sk = f->new_label ();
      bool same_block = cs.flip ();  // both label addresses taken in one basic block (a dispatch-table set-up)
      f->add (MIR_LADDR, {Op::R (r_lab), Op::L (l1)});
      if (same_block) f->add (MIR_LADDR, {Op::R (r_lab2), Op::L (l2)});
      {
        Op a = int_src64 (false);
        if (!cfg.const_branches && a.k == Op::INT) a = Op::R (pick (w64));
        f->add (MIR_BT, {Op::L (sk), a});
      }
      if (same_block) f->add (MIR_MOV, {Op::R (r_lab), Op::R (r_lab2)});
      else f->add (MIR_LADDR, {Op::R (r_lab), Op::L (l2)});
      f->label (sk);
      f->add (MIR_JMPI, {Op::R (r_lab)});
      break;
    }
    case 6: {  // overflow insn + flag branch (must be adjacent)
      feat.overflow = true;
      static const int ops[] = {MIR_ADDO, MIR_SUBO, MIR_ADDOS, MIR_SUBOS, MIR_MULO, MIR_MULOS, MIR_UMULO, MIR_UMULOS};
      int i = (int) cs.range (0, 7);
      bool s32 = i == 2 || i == 3 || i == 5 || i == 7;
      Op a = s32 ? int_src32 (false) : int_src64 (false), b = s32 ? int_src32 (false) : int_src64 (false);
      f->add (ops[i], {s32 ? (w32.empty () ? Op::R (r_tmp) : Op::R (pick (w32))) : Op::R (pick (w64)), a, b});
      int br;
      if (i >= 6) br = cs.flip () ? MIR_UBO : MIR_UBNO;
      else if (i >= 4) br = cs.flip () ? MIR_BO : MIR_BNO;
      else {
        static const int brs[] = {MIR_BO, MIR_BNO, MIR_UBO, MIR_UBNO};
        br = brs[cs.range (0, 3)];
      }
      f->add (br, {Op::L (some_label ())});
      f->add (MIR_JMP, {Op::L (cs.flip () ? next_label : some_label ())});
      break;
    }
    default:
      if (cfg.multi_ret && cs.chance (150)) {  // an early return: MIR_link merges all returns into one
        feat.multi_ret = true;
        f->insns.emplace_back (MIR_RET, ret_ops ());
      } else
        f->add (MIR_JMP, {Op::L (exit_label)});
      break;
    }
  }

  std::vector<Op> ret_ops () {
    std::vector<Op> rets;
    for (int t : f->res) {
      if (t == MIR_T_F) rets.push_back (Op::R (pick (fr)));
      else if (t == MIR_T_D) rets.push_back (Op::R (pick (dr)));
      else if (t == MIR_T_LD) rets.push_back (Op::R (pick (ldr)));
      else if (type_size (t) <= 4 && !w32.empty () && cs.flip ()) rets.push_back (Op::R (pick (w32)));
      else rets.push_back (Op::R (pick (w64)));
    }
    return rets;
  }

  // ---- a whole function
  void gen_func (int idx) {
    func_index = idx;
    Module &mod = prog.mods[sigs[idx].module];
    Func fn;
    fn.name = sigs[idx].name;
    fn.lab_prefix = std::to_string (idx);
    fn.res = sigs[idx].res;
    fn.args = sigs[idx].args;
    f = &fn;
    w64.clear (); w32.clear (); fr.clear (); dr.clear (); ldr.clear (); addr.clear (); allocas.clear ();
    block_labels.clear ();
    // argument registers
    std::vector<int> blk_args;
    for (size_t i = 0; i < fn.args.size (); i++) {
      int t = fn.args[i].type;
      RC rc = t == MIR_T_F ? FR : t == MIR_T_D ? DR : t == MIR_T_LD ? LDR : (t == MIR_T_P || (t >= MIR_T_BLK && t <= MIR_T_RBLK)) ? ADDR : W64;
      fn.regs.push_back ({rc, fn.args[i].name});
      if (i == 0) r_depth = 0;
      else if (t == MIR_T_P) r_buf = (int) i;
      else if (t >= MIR_T_BLK && t <= MIR_T_RBLK) blk_args.push_back ((int) i);
      else if (rc == W64) w64.push_back ((int) i);
      else if (rc == FR) fr.push_back ((int) i);
      else if (rc == DR) dr.push_back ((int) i);
      else if (rc == LDR) ldr.push_back ((int) i);
    }
    bool spill = cs.chance (25);
    if (spill) feat.spill = true;
    int n64 = spill ? (int) cs.range (16, 26) : (int) cs.range (2, 8);
    int n32 = (int) cs.range (0, 3);
    int nf = cfg.fp ? (int) cs.range (0, 3) : 0, nd = cfg.fp ? (spill && cs.flip () ? (int) cs.range (17, 20) : (int) cs.range (1, 4)) : 0;
    int nld = (cfg.fp && cfg.ld) ? (int) cs.range (0, 2) : 0;
    for (int t : fn.res) {
      if (t == MIR_T_F && nf == 0) nf = 1;
      if (t == MIR_T_D && nd == 0) nd = 1;
      if (t == MIR_T_LD && nld == 0) nld = 1;
    }
    for (int i = 0; i < n64; i++) w64.push_back (fn.new_reg (W64, "r"));
    for (int i = 0; i < n32; i++) w32.push_back (fn.new_reg (W32, "w"));
    for (int i = 0; i < nf; i++) fr.push_back (fn.new_reg (FR, "f"));
    for (int i = 0; i < nd; i++) dr.push_back (fn.new_reg (DR, "d"));
    for (int i = 0; i < nld; i++) ldr.push_back (fn.new_reg (LDR, "l"));
    for (int i = 0; i < 3; i++) addr.push_back (fn.new_reg (ADDR, "p"));
    r_fuel = fn.new_reg (W64, "fuel");
    r_idx = fn.new_reg (W64, "idx");
    r_tmp = fn.new_reg (W64, "tmp");
    r_lab = fn.new_reg (LABV, "lab");
    r_lab2 = fn.new_reg (LABV, "lab");
    // prologue: every register is initialised
    int nargs = (int) fn.args.size ();
    std::vector<int> int_args;
    for (int r : w64) if (r < nargs) int_args.push_back (r);
    if (cfg.const_branches)
      fn.add (MIR_MOV, {Op::R (r_fuel), Op::I ((int64_t) cs.range (1, cfg.max_fuel))});
    else  // a run-time value (depth is 0..2): the optimizer cannot fold the fuel checks into unreachable loops
      fn.add (MIR_ADD, {Op::R (r_fuel), Op::R (r_depth), Op::I ((int64_t) cs.range (1, cfg.max_fuel))});
    fn.add (MIR_MOV, {Op::R (r_tmp), Op::I (0)});
    for (int r : w64)
      if (r >= nargs) {
        if (!int_args.empty () && cs.chance (110)) fn.add (MIR_MOV, {Op::R (r), Op::R (pick (int_args))});
        else if (cs.chance (60)) fn.add (MIR_MOV, {Op::R (r), Op::M (MIR_T_I64, (int64_t) (cs.range (0, 31) * 8), r_buf)});
        else fn.add (MIR_MOV, {Op::R (r), Op::I (pick_int (cs))});
      }
    fn.add (MIR_AND, {Op::R (r_idx), Op::R (pick (w64)), Op::I (15)});
    for (int r : w32) fn.add (MIR_ADDS, {Op::R (r), Op::R (pick (w64)), Op::I (pick_small_int (cs))});
    for (int r : fr)
      if (r >= nargs) {
        if (cs.chance (128)) fn.add (MIR_FMOV, {Op::R (r), Op::M (MIR_T_F, (int64_t) (cs.range (0, 63) * 4), r_buf)});
        else fn.add (MIR_FMOV, {Op::R (r), Op::F (pick_f (cs, true))});
      }
    for (int r : dr)
      if (r >= nargs) {
        if (cs.chance (128)) fn.add (MIR_DMOV, {Op::R (r), Op::M (MIR_T_D, (int64_t) (cs.range (0, 31) * 8), r_buf)});
        else fn.add (MIR_DMOV, {Op::R (r), Op::D (pick_d (cs, true))});
      }
    for (int r : ldr)
      if (r >= nargs) {
        if (cs.chance (100)) fn.add (MIR_LDMOV, {Op::R (r), Op::M (MIR_T_LD, (int64_t) (192 + cs.range (0, 3) * 16), r_buf)});
        else if (cfg.no_ld_imm) fn.add (MIR_I2LD, {Op::R (r), Op::R (pick (w64))});
        else fn.add (MIR_LDMOV, {Op::R (r), Op::LD (pick_ld (cs, true))});
      }
    for (int r : addr) fn.add (MIR_MOV, {Op::R (r), Op::R (r_buf)});
    fn.add (MIR_LADDR, {Op::R (r_lab), Op::L (0)});
    fn.add (MIR_LADDR, {Op::R (r_lab2), Op::L (0)});
    // an alloca ahead of every label is what link-time inlining merges into the caller's frame
    if (cfg.allocas && cfg.prologue_alloca && cs.chance (cfg.prologue_alloca_chance)) gen_alloca ();
    // block arguments: the callee owns a private copy of 16..32 bytes; fold it into registers
    for (int b : blk_args) {
      fn.add (MIR_MOV, {Op::R (pick (w64)), Op::M (MIR_T_I64, 0, b)});
      fn.add (MIR_MOV, {Op::M (MIR_T_I64, 8, b), Op::I (pick_int (cs))});  // writes must stay private to the callee
      fn.add (MIR_MOV, {Op::R (pick (w64)), Op::M (MIR_T_I64, 8, b)});
    }
    // wide signatures: every argument is recorded, so one lost or swapped argument register is always visible
    if (nargs > 7) feat.wide = true;
    {
      int nfp = 0;
      for (auto &a : fn.args) nfp += a.type == MIR_T_F || a.type == MIR_T_D;
      if (nfp >= 8) feat.fp8 = true;
    }
    if (nargs > 7)
      for (int k = 1; k + 1 < nargs; k++) {
        int t = fn.args[k].type;
        int64_t off = 8 * (int64_t) (k - 1);
        if (t == MIR_T_F) fn.add (MIR_FMOV, {Op::M (MIR_T_F, off, r_buf), Op::R (k)});
        else if (t == MIR_T_D) fn.add (MIR_DMOV, {Op::M (MIR_T_D, off, r_buf), Op::R (k)});
        else if (t == MIR_T_LD) fn.add (MIR_LDMOV, {Op::M (MIR_T_LD, 192 + 16 * (k % 4), r_buf), Op::R (k)});
        else if (t < MIR_T_BLK) fn.add (MIR_MOV, {Op::M (MIR_T_I64, off, r_buf), Op::R (k)});
      }
    // blocks
    int nblocks = (int) cs.range (1, cfg.max_blocks);
    exit_label = fn.new_label ();  // label 0
    for (int b = 0; b < nblocks; b++) block_labels.push_back (fn.new_label ());
    for (int b = 0; b < nblocks; b++) {
      fn.label (block_labels[b]);
      fn.add (MIR_SUB, {Op::R (r_fuel), Op::R (r_fuel), Op::I (1)});
      fn.add (MIR_BLE, {Op::L (exit_label), Op::R (r_fuel), Op::I (0)});
      if (b == 0 && cfg.first_block_calls > 0)  // calls on the path every activation takes
        for (int k = (int) cs.range (0, cfg.first_block_calls); k > 0; k--) gen_call ();
      int n = (int) cs.range (0, cfg.max_insns);
      for (int k = 0; k < n; k++) gen_insn ();
      gen_terminator (b + 1 < nblocks ? block_labels[b + 1] : exit_label);
    }
    // exit: dump a few registers into the buffer, return
    fn.label (exit_label);
    if (cfg.dump_allocas)
      for (size_t k = 0; k < allocas.size (); k++) {
        int r = pick (w64);
        int64_t off = (int64_t) (cs.range (0, 21) * 8);
        fn.add (MIR_MOV, {Op::R (r), Op::M (MIR_T_I64, 0, allocas[k].reg)});
        fn.add (MIR_MOV, {Op::M (MIR_T_I64, off, r_buf), Op::R (r)});
        fn.add (MIR_MOV, {Op::R (r), Op::M (MIR_T_I64, 8, allocas[k].reg)});
        fn.add (MIR_MOV, {Op::M (MIR_T_I64, off + 8, r_buf), Op::R (r)});
      }
    int ndump = (int) cs.range (0, 4);
    for (int k = 0; k < ndump; k++) {
      int64_t off = (int64_t) (cs.range (0, 11) * 16);
      int c = cs.weightedv ({4, w32.empty () ? 0 : 2, fr.empty () ? 0 : 1, dr.empty () ? 0 : 2, ldr.empty () ? 0 : 1});
      if (c == 0) fn.add (MIR_MOV, {Op::M (MIR_T_I64, off, r_buf), Op::R (pick (w64))});
      else if (c == 1) fn.add (MIR_MOV, {Op::M (MIR_T_U32, off, r_buf), Op::R (pick (w32))});
      else if (c == 2) fn.add (MIR_FMOV, {Op::M (MIR_T_F, off, r_buf), Op::R (pick (fr))});
      else if (c == 3) fn.add (MIR_DMOV, {Op::M (MIR_T_D, off, r_buf), Op::R (pick (dr))});
      else fn.add (MIR_LDMOV, {Op::M (MIR_T_LD, 192 + (off & 0x30), r_buf), Op::R (pick (ldr))});
    }
    fn.insns.emplace_back (MIR_RET, ret_ops ());
    // irreducibility label: a block other than the first is a branch target from an earlier and a later block
    mod.add_func (fn);
    if (cfg.passive_items) {
      // label reference tables of this function (one- and two-label forms); nothing reads them
      for (int k = cs.weighted ({4, 3, 1}); k > 0; k--) {
        DataItem d;
        d.k = DataItem::LREF;
        d.name = "tab" + std::to_string (idx) + "_" + std::to_string (k);
        d.ref = fn.lab_prefix;
        d.lab = (int) cs.range (0, fn.nlabels - 1);
        d.lab2 = cs.chance (150) ? (int) cs.range (0, fn.nlabels - 1) : -1;
        d.disp = cs.flip () ? 0 : (int64_t) cs.range (1, 40);
        mod.add_data (d);
      }
      // a never-called function with a variable tied to a hard register
      if (cs.chance (70)) {
        Func g;
        g.name = "gv" + std::to_string (idx);
        static const char *hr[] = {"r12", "r13", "r14", "r15", "rbx"};
        g.raw_text = g.name + ":\tfunc\ti64, i64:a\n\tlocal\ti64:b\n\tglobal\ti64:g:" + hr[cs.range (0, 4)]
                     + "\n\tadd\tb, a, g\n\tadd\tg, g, 1\n\tret\tb\n\tendfunc\n";
        mod.add_func (g);
      }
    }
    f = nullptr;
  }

  // ---- whole program
  Prog generate () {
    int nf = (int) cs.range (cfg.min_funcs, cfg.max_funcs);
    int nmods = cfg.multi_module ? (int) cs.range (1, 3) : 1;
    prog.mods.resize (nmods);
    mod_protos.resize (nmods);
    mod_imports.resize (nmods);
    for (int m = 0; m < nmods; m++) prog.mods[m].name = "m" + std::to_string (m);
    // signatures first (calls may go forward and backward)
    for (int i = 0; i < nf; i++) {
      FuncSig s;
      s.name = i == 0 ? "entry" : "fn" + std::to_string (i);
      s.module = i == 0 ? nmods - 1 : (int) cs.range (0, nmods - 1);  // entry lives in the module loaded last
      if (i == 0) {
        s.res = {MIR_T_I64, MIR_T_D};
        if (cfg.single_result) s.res = {MIR_T_I64};
        s.args = {{MIR_T_I64, "depth"}, {MIR_T_I64, "a0"}, {MIR_T_I64, "a1"}, {MIR_T_D, "x0"}, {MIR_T_P, "buf"}};
      } else {
        static const int rt[] = {MIR_T_I64, MIR_T_D, MIR_T_I32, MIR_T_U8, MIR_T_I16, MIR_T_F, MIR_T_LD, MIR_T_U32, MIR_T_I8, MIR_T_U16};
        int nr = cfg.single_result ? (int) cs.range (0, 1) : cs.weighted ({2, 6, 3, 1});
        int ni = 0, nfp = 0, nld = 0;
        for (int k = 0; k < nr; k++) {
          int t = rt[cs.range (0, cfg.narrow_sigs ? 9 : 1)];
          if (!cfg.fp && !MIR_int_type_p ((MIR_type_t) t)) t = MIR_T_I64;
          if (t == MIR_T_LD && !cfg.ld) t = MIR_T_D;
          if (t == MIR_T_LD) { if (++nld > 2) t = MIR_T_I64; }
          else if (t == MIR_T_F || t == MIR_T_D) { if (++nfp > 2) t = MIR_T_I64; }
          if (MIR_int_type_p ((MIR_type_t) t) && ++ni > 2) continue;
          s.res.push_back (t);
        }
        s.args.push_back ({MIR_T_I64, "depth"});
        // wide signatures fill every argument register of one kind and spill to the stack (wrappers and
        // trampolines save and restore all of them)
        bool wide = cfg.wide_sigs && cs.chance (64);
        int wide_t = wide ? (cs.flip () ? MIR_T_D : cs.flip () ? MIR_T_I64 : MIR_T_F) : 0;
        int na = wide ? (int) cs.range (8, 14) : (int) cs.range (0, 5);
        for (int k = 0; k < na; k++) {
          static const int at[] = {MIR_T_I64, MIR_T_D, MIR_T_I32, MIR_T_U8, MIR_T_F, MIR_T_I16, MIR_T_LD, MIR_T_U32, MIR_T_I8, MIR_T_U16, MIR_T_U64, MIR_T_BLK};
          int t = wide && cs.chance (200) ? wide_t : at[cs.range (0, cfg.narrow_sigs ? 11 : 1)];
          if (t == MIR_T_BLK && !cfg.blk_args) t = MIR_T_I64;
          if (!cfg.fp && !MIR_int_type_p ((MIR_type_t) t) && t != MIR_T_BLK) t = MIR_T_I64;
          if (t == MIR_T_LD && !cfg.ld) t = MIR_T_D;
          Arg a = {t, "a" + std::to_string (k), 0};
          if (t == MIR_T_BLK) {
            a.type = MIR_T_BLK + (int) cs.range (0, 1);  // blk (memory) or blk1 (integer regs); others are ABI-specific
            a.size = a.type == MIR_T_BLK ? 16 + cs.range (0, 2) * 8 : 16;
            a.name = "b" + std::to_string (k);
          }
          s.args.push_back (a);
        }
        s.args.push_back ({MIR_T_P, "buf"});
        if (wide) wide_idx.push_back (i);
      }
      sigs.push_back (s);
    }
    if (cfg.callbacks) {
      FuncSig s;
      s.name = "cbf";
      s.module = (int) cs.range (0, nmods - 1);
      s.res = {MIR_T_I64};
      s.args = {{MIR_T_I64, "depth"}, {MIR_T_P, "buf"}};
      sigs.push_back (s);
      has_cbf = true;
      cbf_module = s.module;
      nf++;
    }
    for (int i = 0; i < nf; i++) gen_func (i);
    if (cfg.passive_data) {  // data sections nothing refers to: a named head and anonymous followers
      Module &mod = prog.mods.back ();
      int nsec = (int) cs.range (0, 3);
      for (int sct = 0; sct < nsec; sct++) {
        int members = (int) cs.range (1, 4);
        if (cfg.single_item_sections) members = 1;
        for (int k = 0; k < members; k++) {
          DataItem d;
          if (k == 0) d.name = "ds" + std::to_string (sct);
          switch (cs.weighted ({6, 2, 1})) {
          case 1:
            d.k = DataItem::BSS;
            d.len = cs.range (1, 24);
            break;
          case 2:
            d.k = DataItem::REF;
            d.ref = "entry";
            d.disp = (int64_t) cs.range (0, 8);
            break;
          default: {
            static const int ts[] = {MIR_T_I64, MIR_T_I8, MIR_T_U8, MIR_T_I16, MIR_T_U16, MIR_T_I32, MIR_T_U32, MIR_T_U64, MIR_T_F, MIR_T_D};
            d.k = DataItem::DATA;
            d.el_type = ts[cs.range (0, 9)];
            size_t es = (size_t) type_size (d.el_type), nel = cs.range (1, 4);
            d.bytes.resize (es * nel);
            for (size_t q = 0; q < nel; q++) {
              if (d.el_type == MIR_T_F) { float v = (float) ((int) cs.range (0, 200) - 100) / 4; memcpy (&d.bytes[q * es], &v, 4); }
              else if (d.el_type == MIR_T_D) { double v = (double) ((int) cs.range (0, 200) - 100) / 8; memcpy (&d.bytes[q * es], &v, 8); }
              else for (size_t b = 0; b < es; b++) d.bytes[q * es + b] = cs.byte ();
            }
          }
          }
          mod.add_data (d);
        }
      }
    }
    // declarations: protos and imports first, exports for everything
    for (int m = 0; m < nmods; m++) {
      Module &mod = prog.mods[m];
      std::vector<Item> items;
      static const std::vector<Proto> eps = ext_protos ();
      for (auto &pn : mod_protos[m]) {
        Proto p;
        bool found = false;
        for (auto &e : eps)
          if (e.name == pn) { p = e; found = true; }
        if (!found)
          for (auto &s : sigs)
            if ("p_" + s.name == pn) { p.name = pn; p.res = s.res; p.args = s.args; }
        mod.protos.push_back (p);
        items.push_back ({Item::PROTO, (int) mod.protos.size () - 1, ""});
      }
      for (auto &in : mod_imports[m]) items.push_back ({Item::IMPORT, -1, in});
      for (auto &fn : mod.funcs) items.push_back ({Item::EXPORT, -1, fn.name});
      if (cfg.passive_data)  // section heads are exported so that a loader can look at the section contents
        for (auto &d : mod.datas)
          if (!d.name.empty () && d.name.compare (0, 2, "ds") == 0) items.push_back ({Item::EXPORT, -1, d.name});
      items.insert (items.end (), mod.items.begin (), mod.items.end ());
      mod.items = items;
    }
    return prog;
  }
};

// irreducibility: a cycle entered at two different blocks. Approximated from the executed path is hard; computed
// statically: exists a retreating edge (in DFS order) whose target does not dominate its source.
static inline bool has_irreducible_loop (const Func &f) {
  // build block graph: blocks start at labels
  std::map<int, int> lab2blk;
  std::vector<std::vector<int>> succ;
  std::vector<size_t> starts;
  for (size_t i = 0; i < f.insns.size (); i++)
    if (f.insns[i].code == MIR_LABEL) {
      lab2blk[f.insns[i].ops[0].lab] = (int) starts.size ();
      starts.push_back (i);
    }
  if (starts.empty ()) return false;
  int n = (int) starts.size ();
  succ.resize (n);
  for (int b = 0; b < n; b++) {
    size_t end = b + 1 < n ? starts[b + 1] : f.insns.size ();
    bool falls = true;
    for (size_t i = starts[b]; i < end; i++) {
      const Insn &in = f.insns[i];
      for (auto &o : in.ops)
        if (o.k == Op::LAB && in.code != MIR_LABEL && in.code != MIR_LADDR && lab2blk.count (o.lab)) succ[b].push_back (lab2blk[o.lab]);
      falls = !(in.code == MIR_JMP || in.code == MIR_RET || in.code == MIR_SWITCH || in.code == MIR_JMPI);
    }
    if (falls && b + 1 < n) succ[b].push_back (b + 1);
  }
  // dominators by iteration (entry = block of first label)
  std::vector<std::vector<char>> dom (n, std::vector<char> (n, 1));
  std::vector<std::vector<int>> pred (n);
  for (int b = 0; b < n; b++)
    for (int s : succ[b]) pred[s].push_back (b);
  dom[0].assign (n, 0);
  dom[0][0] = 1;
  bool ch = true;
  while (ch) {
    ch = false;
    for (int b = 1; b < n; b++) {
      std::vector<char> nd (n, 1);
      bool any = false;
      for (int p : pred[b]) {
        any = true;
        for (int k = 0; k < n; k++) nd[k] = nd[k] && dom[p][k];
      }
      if (!any) nd.assign (n, 0);
      nd[b] = 1;
      if (nd != dom[b]) {
        dom[b] = nd;
        ch = true;
      }
    }
  }
  // DFS for retreating edges
  std::vector<int> state (n, 0);
  bool irr = false;
  std::function<void (int)> dfs = [&] (int b) {
    state[b] = 1;
    for (int s : succ[b]) {
      if (state[s] == 0) dfs (s);
      else if (state[s] == 1 && !dom[b][s]) irr = true;
    }
    state[b] = 2;
  };
  dfs (0);
  return irr;
}

}  // namespace mm
