// Running a mm::Prog on the real library: interpreter and generator interfaces, natives, buffer.
#pragma once
#include "model.h"
#include "refeval.h"
#include "gen.h"
#include <setjmp.h>
#include <stdarg.h>
#include <sys/mman.h>
#include <unistd.h>
extern "C" {
#include "mir-gen.h"
}

namespace mm {

enum Engine { E_INTERP, E_INTERP_IF, E_GEN0, E_GEN1, E_GEN2, E_GEN3, E_LAZY, E_LAZYBB, E_NENGINES };
static const char *engine_names[] = {"interp", "interp-if", "gen-O0", "gen-O1", "gen-O2", "gen-O3", "lazy-gen", "lazy-bb-gen"};

struct Input {
  int64_t depth, a0, a1;
  double x0;
  uint8_t buf[MM_BUF_SIZE];
};

static inline uint8_t *the_buffer () {
  static uint8_t *page = nullptr;
  if (!page) {
    uintptr_t pg = MM_BUF_ADDR & ~0xfffull;
    void *p = mmap ((void *) pg, 4096, PROT_READ | PROT_WRITE, MAP_PRIVATE | MAP_ANONYMOUS | MAP_FIXED_NOREPLACE, -1, 0);
    if (p != (void *) pg) {
      perror ("mmap of the observed buffer");
      _exit (97);
    }
    page = (uint8_t *) p;
  }
  return (uint8_t *) MM_BUF_ADDR;
}

// ------------------------------------------------------------------ natives + their models
static std::vector<CallRec> g_native_log;
static inline void log_native (const char *name, std::initializer_list<std::pair<int, Val>> a) {
  CallRec r;
  r.name = name;
  for (auto &p : a) {
    r.types.push_back (p.first);
    r.args.push_back (p.second);
  }
  g_native_log.push_back (r);
}
extern "C" {
static int64_t ext_ii (int64_t a, int64_t b) {
  log_native ("ext_ii", {{MIR_T_I64, VI (a)}, {MIR_T_I64, VI (b)}});
  return (int64_t) ((uint64_t) a * 3 + ((uint64_t) b ^ 0x55));
}
static double ext_d (double x, int64_t n) {
  log_native ("ext_d", {{MIR_T_D, VD (x)}, {MIR_T_I64, VI (n)}});
  return x * 0.5 + (double) (n & 0xffff);
}
static int32_t ext_mix (int32_t a, uint8_t b, double c, float d, int16_t e, uint32_t f, int8_t g) {
  log_native ("ext_mix", {{MIR_T_I32, VI (a)}, {MIR_T_U8, VI (b)}, {MIR_T_D, VD (c)}, {MIR_T_F, VF (d)}, {MIR_T_I16, VI (e)},
                          {MIR_T_U32, VI (f)}, {MIR_T_I8, VI (g)}});
  return (int32_t) ((uint32_t) a + b + (uint32_t) e * 7 + f + (uint32_t) g);
}
static long double ext_ld (long double x, int64_t n) {
  log_native ("ext_ld", {{MIR_T_LD, VLD (x)}, {MIR_T_I64, VI (n)}});
  return x + (long double) (n & 0xff);
}
static int64_t ext_many (int64_t a, int64_t b, int64_t c, int64_t d, int64_t e, int64_t f, int64_t g, double h, int64_t i) {
  log_native ("ext_many", {{MIR_T_I64, VI (a)}, {MIR_T_I64, VI (b)}, {MIR_T_I64, VI (c)}, {MIR_T_I64, VI (d)}, {MIR_T_I64, VI (e)},
                           {MIR_T_I64, VI (f)}, {MIR_T_I64, VI (g)}, {MIR_T_D, VD (h)}, {MIR_T_I64, VI (i)}});
  return (int64_t) ((uint64_t) a + 2 * (uint64_t) b + 3 * (uint64_t) c + 4 * (uint64_t) d + 5 * (uint64_t) e + 6 * (uint64_t) f
                    + 7 * (uint64_t) g + 9 * (uint64_t) i);
}
}
typedef int64_t (*cbf_t) (int64_t, void *);
extern "C" {
static int64_t ext_cb (void *fn, int64_t depth, void *buf) {
  log_native ("ext_cb", {{MIR_T_I64, VI (depth)}});  // addresses are engine specific and are not logged
  int64_t r = ((cbf_t) fn) (depth, buf);
  log_native ("ext_cb_ret", {{MIR_T_I64, VI (r)}});
  return (int64_t) ((uint64_t) r * 5 + 1);
}
}
static inline void install_ext_models (Evaluator &ev) {
  auto protos = ext_protos ();
  for (auto &p : protos) {
    ExtFn e;
    for (auto &a : p.args) e.arg_types.push_back (a.type);
    e.res_types = p.res;
    std::string n = p.name.substr (2);
    if (n == "ext_cb") {
      Evaluator *evp = &ev;
      e.arg_types = {MIR_T_P, MIR_T_I64, MIR_T_P};
      e.fn = [evp] (const std::vector<Val> &a, std::vector<Val> &r) {
        // model of the native: it logs, calls the function whose address it was given, logs, returns 5*r+1
        uint64_t v = (uint64_t) a[0].i;
        if ((v >> 32) != 0xF000 || (v & 0xffffffff) >= evp->func_names.size ()) throw Undefined{"callback through a non-function value"};
        evp->log.pop_back ();  // call_func logged (fn, depth, buf); the native logs depth only
        CallRec rec;
        rec.name = "ext_cb";
        rec.types = {MIR_T_I64};
        rec.args = {VI (a[1].i)};
        evp->log.push_back (rec);
        std::vector<Val> res;
        evp->call_func (evp->func_names[v & 0xffffffff], {VI (a[1].i), a[2]}, res);
        CallRec rec2;
        rec2.name = "ext_cb_ret";
        rec2.types = {MIR_T_I64};
        rec2.args = {res[0]};
        evp->log.push_back (rec2);
        r = {VI ((int64_t) ((uint64_t) res[0].i * 5 + 1))};
      };
      ev.exts[n] = e;
      continue;
    }
    if (n == "ext_ii")
      e.fn = [] (const std::vector<Val> &a, std::vector<Val> &r) { r = {VI ((int64_t) ((uint64_t) a[0].i * 3 + ((uint64_t) a[1].i ^ 0x55)))}; };
    else if (n == "ext_d")
      e.fn = [] (const std::vector<Val> &a, std::vector<Val> &r) { r = {VD (a[0].d * 0.5 + (double) (a[1].i & 0xffff))}; };
    else if (n == "ext_mix")
      e.fn = [] (const std::vector<Val> &a, std::vector<Val> &r) {
        r = {VI ((int32_t) ((uint32_t) a[0].i + (uint8_t) a[1].i + (uint32_t) (int16_t) a[4].i * 7 + (uint32_t) a[5].i
                            + (uint32_t) (int8_t) a[6].i))};
      };
    else if (n == "ext_ld")
      e.fn = [] (const std::vector<Val> &a, std::vector<Val> &r) { r = {VLD (a[0].ld + (long double) (a[1].i & 0xff))}; };
    else
      e.fn = [] (const std::vector<Val> &a, std::vector<Val> &r) {
        r = {VI ((int64_t) ((uint64_t) a[0].i + 2 * (uint64_t) a[1].i + 3 * (uint64_t) a[2].i + 4 * (uint64_t) a[3].i
                            + 5 * (uint64_t) a[4].i + 6 * (uint64_t) a[5].i + 7 * (uint64_t) a[6].i + 9 * (uint64_t) a[8].i))};
      };
    ev.exts[n] = e;
  }
}

// ------------------------------------------------------------------ reference run
// returns "" if well defined, else the reason the case is undefined; throws ModelError for generator bugs
struct RefStats {
  int back_edges = 0, calls = 0, mem = 0, ext_calls = 0;
  long steps = 0;
  std::map<std::string, int> op_hist;
};
static inline std::string run_reference (const Prog &p, const Input &in, Obs &obs, RefStats *st = nullptr, long max_steps = 100000) {
  Evaluator ev (p);
  ev.max_steps = max_steps;
  install_ext_models (ev);
  // region 0 is the observed buffer at its real, fixed address
  ev.regions[0].live = true;
  ev.regions[0].bytes.assign (in.buf, in.buf + MM_BUF_SIZE);
  ev.regions[0].shadow.assign (MM_BUF_SIZE, SH_PLAIN);
  std::vector<Val> args = {VI (in.depth), VI (in.a0), VI (in.a1), VD (in.x0), VI ((int64_t) MM_BUF_ADDR)};
  std::vector<Val> res;
  try {
    ev.call_func ("entry", args, res);
  } catch (Undefined &u) {
    return u.why;
  }
  auto it = ev.funcs.find ("entry");
  const Func &f = p.mods[it->second.first].funcs[it->second.second];
  obs.res_types = f.res;
  obs.results = res;
  obs.log = ev.log;
  obs.buf = ev.regions[0].bytes;
  obs.shadow = ev.regions[0].shadow;
  if (st) {
    st->back_edges = ev.taken_back_edges;
    st->calls = ev.calls_done;
    st->mem = ev.mem_accesses;
    st->ext_calls = ev.ext_calls;
    st->steps = ev.steps;
    st->op_hist = ev.op_hist;
  }
  return "";
}

// ------------------------------------------------------------------ real engines
static int g_lazy_level = 2;          // optimisation level used for the lazy interfaces
static int g_max_depth = 2;
static int g_min_depth = 0;           // smallest call depth given to entry (0 = no calls are executed)
static bool g_check_addr_stability = false;
static bool g_count_inlines = false;  // count call sites inlined by MIR_link (C04 non-triviality)
static int g_inlined_sites = 0;
static jmp_buf g_err_jb;
static char g_err_msg[1024];
static int g_err_code;
static void MIR_NO_RETURN err_func (MIR_error_type_t t, const char *fmt, ...) {
  va_list ap;
  va_start (ap, fmt);
  vsnprintf (g_err_msg, sizeof (g_err_msg), fmt, ap);
  va_end (ap);
  g_err_code = (int) t;
  longjmp (g_err_jb, 1);
}

struct RetID {
  int64_t i;
  double d;
};
typedef RetID (*entry_fn_t) (int64_t, int64_t, int64_t, double, void *);
typedef int64_t (*entry1_fn_t) (int64_t, int64_t, int64_t, double, void *);

static inline MIR_item_t find_item (MIR_context_t ctx, const char *name, MIR_item_type_t type = MIR_func_item) {
  for (MIR_module_t m = DLIST_HEAD (MIR_module_t, *MIR_get_module_list (ctx)); m != NULL; m = DLIST_NEXT (MIR_module_t, m))
    for (MIR_item_t it = DLIST_HEAD (MIR_item_t, m->items); it != NULL; it = DLIST_NEXT (MIR_item_t, it))
      if (it->item_type == type && strcmp (MIR_item_name (ctx, it), name) == 0) return it;
  return NULL;
}

static inline void load_ext_natives (MIR_context_t ctx) {
  MIR_load_external (ctx, "ext_ii", (void *) ext_ii);
  MIR_load_external (ctx, "ext_d", (void *) ext_d);
  MIR_load_external (ctx, "ext_mix", (void *) ext_mix);
  MIR_load_external (ctx, "ext_ld", (void *) ext_ld);
  MIR_load_external (ctx, "ext_many", (void *) ext_many);
  MIR_load_external (ctx, "ext_cb", (void *) ext_cb);
}

// Runs every input in one fresh context. Returns "" or an error description (library error callback).
typedef std::function<void (MIR_context_t)> Loader;
static inline std::string run_engine_l (const Loader &loader, Engine e, const std::vector<Input> &ins, std::vector<Obs> &out,
                                        const std::vector<int> &entry_res);
static inline std::string run_engine (const std::string &text, Engine e, const std::vector<Input> &ins, std::vector<Obs> &out,
                                      const std::vector<int> &entry_res) {
  return run_engine_l ([&] (MIR_context_t c) { MIR_scan_string (c, text.c_str ()); }, e, ins, out, entry_res);
}
static inline std::string run_engine_l (const Loader &loader, Engine e, const std::vector<Input> &ins, std::vector<Obs> &out,
                                        const std::vector<int> &entry_res) {
  MIR_context_t ctx = MIR_init ();
  std::string err;
  volatile bool gen_inited = false;
  if (setjmp (g_err_jb)) {
    err = strfmt ("library error %d: %s", g_err_code, g_err_msg);
    return err;  // context abandoned (error function is documented as non-returning)
  }
  MIR_set_error_func (ctx, err_func);
  loader (ctx);
  for (MIR_module_t m = DLIST_HEAD (MIR_module_t, *MIR_get_module_list (ctx)); m != NULL; m = DLIST_NEXT (MIR_module_t, m))
    MIR_load_module (ctx, m);
  load_ext_natives (ctx);
  if (e >= E_GEN0) {
    MIR_gen_init (ctx);
    gen_inited = true;
    int lvl = e == E_GEN0 ? 0 : e == E_GEN1 ? 1 : e == E_GEN3 ? 3 : (e == E_LAZY || e == E_LAZYBB) ? g_lazy_level : 2;
    MIR_gen_set_optimize_level (ctx, (unsigned) lvl);
  }
  switch (e) {
  case E_INTERP:
  case E_INTERP_IF: MIR_link (ctx, MIR_set_interp_interface, NULL); break;
  case E_LAZY: MIR_link (ctx, MIR_set_lazy_gen_interface, NULL); break;
  case E_LAZYBB: MIR_link (ctx, MIR_set_lazy_bb_gen_interface, NULL); break;
  default: MIR_link (ctx, MIR_set_gen_interface, NULL); break;
  }
  if (g_count_inlines) {  // registers of an inlined body are renamed to .c<N>_<name>: N counts the inlined call sites
    g_inlined_sites = 0;
    for (MIR_module_t m = DLIST_HEAD (MIR_module_t, *MIR_get_module_list (ctx)); m != NULL; m = DLIST_NEXT (MIR_module_t, m))
      for (MIR_item_t it = DLIST_HEAD (MIR_item_t, m->items); it != NULL; it = DLIST_NEXT (MIR_item_t, it))
        if (it->item_type == MIR_func_item && it->u.func->vars != NULL) {
          int mx = 0;
          for (size_t k = 0; k < VARR_LENGTH (MIR_var_t, it->u.func->vars); k++) {
            const char *nm = VARR_GET (MIR_var_t, it->u.func->vars, k).name;
            if (nm[0] == '.' && nm[1] == 'c' && isdigit ((unsigned char) nm[2])) mx = std::max (mx, atoi (nm + 2));
          }
          g_inlined_sites += mx;
        }
  }
  MIR_item_t entry = find_item (ctx, "entry");
  if (!entry) return "entry not found";
  // public addresses of all functions: they must stay valid and unchanged across the switch from stub to code
  std::vector<std::pair<MIR_item_t, void *>> addrs;
  if (g_check_addr_stability)
    for (MIR_module_t m = DLIST_HEAD (MIR_module_t, *MIR_get_module_list (ctx)); m != NULL; m = DLIST_NEXT (MIR_module_t, m))
      for (MIR_item_t it = DLIST_HEAD (MIR_item_t, m->items); it != NULL; it = DLIST_NEXT (MIR_item_t, it))
        if (it->item_type == MIR_func_item) addrs.push_back ({it, it->addr});
  uint8_t *buf = the_buffer ();
  for (auto &in : ins) {
    memcpy (buf, in.buf, MM_BUF_SIZE);
    g_native_log.clear ();
    Obs o;
    o.res_types = entry_res;
    if (e == E_INTERP) {
      MIR_val_t res[4], args[5];
      memset (res, 0, sizeof (res));
      args[0].i = in.depth;
      args[1].i = in.a0;
      args[2].i = in.a1;
      args[3].d = in.x0;
      args[4].a = buf;
      MIR_interp_arr (ctx, entry, res, 5, args);
      for (size_t k = 0; k < entry_res.size (); k++) {
        Val v;
        v.def = true;
        if (entry_res[k] == MIR_T_D) v.d = res[k].d;
        else v.i = res[k].i;
        o.results.push_back (v);
      }
    } else if (entry_res.size () == 2) {
      RetID r = ((entry_fn_t) entry->addr) (in.depth, in.a0, in.a1, in.x0, buf);
      o.results = {VI (r.i), VD (r.d)};
    } else {
      int64_t r = ((entry1_fn_t) entry->addr) (in.depth, in.a0, in.a1, in.x0, buf);
      o.results = {VI (r)};
    }
    o.log = g_native_log;
    o.buf.assign (buf, buf + MM_BUF_SIZE);
    out.push_back (o);
    for (auto &pa : addrs)
      if (pa.first->addr != pa.second) return strfmt ("public address of function %s changed from %p to %p", pa.first->u.func->name, pa.second, pa.first->addr);
  }
  if (gen_inited) MIR_gen_finish (ctx);
  MIR_finish (ctx);
  return "";
}

// ------------------------------------------------------------------ inputs
static inline Input gen_input (CS &cs) {
  Input in;
  in.depth = (int64_t) cs.range (g_min_depth, g_max_depth);
  in.a0 = pick_int (cs);
  in.a1 = pick_int (cs);
  in.x0 = pick_d (cs, false);
  // buffer: typed fill so that loads of every type meet interesting, *valid* values
  size_t off = 0;
  while (off < 192) {  // [0,192): any bit patterns
    int k = off < 128 ? cs.weighted ({5, 3, 2}) : cs.weighted ({1, 4, 3});
    if (k == 0) {
      int64_t v = pick_int (cs);
      memcpy (in.buf + off, &v, 8);
    } else if (k == 1) {
      double v = pick_d (cs, false);
      memcpy (in.buf + off, &v, 8);
    } else {
      float a = pick_f (cs, false), b = pick_f (cs, false);
      memcpy (in.buf + off, &a, 4);
      memcpy (in.buf + off + 4, &b, 4);
    }
    off += 8;
  }
  for (; off < MM_BUF_SIZE; off += 16) {  // [192,256): valid x87 long doubles
    long double v = pick_ld (cs, false);
    memset (in.buf + off, 0, 16);
    memcpy (in.buf + off, &v, 10);
  }
  return in;
}
static inline std::string show_input (const Input &in) {
  return strfmt ("depth=%ld a0=%ld a1=%ld x0=%a buf=%s", (long) in.depth, (long) in.a0, (long) in.a1, in.x0,
                 hexs (in.buf, MM_BUF_SIZE).c_str ());
}

}  // namespace mm
