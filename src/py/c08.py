"""C08 — c2mir lays out and passes C data exactly as the platform ABI does.
Hypothesis generates a set of struct / union types (scalars of every kind, arrays, nested and anonymous members,
bit-fields of explicit signedness incl. zero-width) and call signatures that put aggregates at every register /
stack position. One header, two translation units:
  lib.c  - callees (always compiled by gcc into a shared object): identity, checksum-of-arguments functions with
           0-6 leading integers and 0-8 leading doubles, callback drivers that call back with aggregates by value;
  main.c - prints sizeof/_Alignof/offsetof and the byte images of objects whose bit-fields were set one at a time,
           then calls every lib function and passes its own functions as callbacks.
Reference = gcc main.c lib.c; test = c2m main.c -L. -llib with -eg and -ei. The outputs must be identical."""
import os, re, subprocess, sys, tempfile, shutil
sys.path.insert(0, os.path.dirname(os.path.abspath(__file__)))
import pyharness
from pyharness import Outcome
from hypothesis import strategies as st

C2M = os.environ.get('VERIF_C2M', '/verif/build/bin/c2m-asan')
TMP = os.environ.get('VERIF_TMP', '/verif/build/tmp')

SCALARS = ['char', 'signed char', 'unsigned char', 'short', 'unsigned short', 'int', 'unsigned', 'long', 'unsigned long',
           'long long', 'float', 'double', 'long double', 'void *', '_Bool', 'enum E']
BF_TYPES = [('signed int', 32, True), ('unsigned int', 32, False), ('signed char', 8, True), ('unsigned char', 8, False),
            ('signed short', 16, True), ('unsigned short', 16, False), ('signed long', 64, True), ('unsigned long', 64, False),
            ('_Bool', 1, False)]


@st.composite
def members(draw, prev_types, depth, allow_bf=True, n_max=6):
    """list of member dicts"""
    out = []
    n = draw(st.integers(1, n_max))
    for i in range(n):
        k = draw(st.integers(0, 11))
        if k <= 4 or (k in (9, 10) and depth >= 2):
            out.append(dict(kind='scalar', type=draw(st.sampled_from(SCALARS))))
        elif k == 5:
            out.append(dict(kind='array', type=draw(st.sampled_from(SCALARS[:12])), n=draw(st.integers(1, 4))))
        elif k in (6, 7) and allow_bf:
            t, w, sg = draw(st.sampled_from(BF_TYPES))
            width = draw(st.one_of(st.integers(1, w), st.sampled_from([1, w, max(1, w - 1), max(1, w // 2)])))
            out.append(dict(kind='bf', type=t, width=min(width, w), signed=sg))
        elif k == 8 and allow_bf:
            t, w, sg = draw(st.sampled_from(BF_TYPES[:8]))
            out.append(dict(kind='bf0', type=t))
        elif k == 9 and prev_types:
            p = draw(st.sampled_from(prev_types))
            if draw(st.booleans()):
                out.append(dict(kind='nested', type=p))
            else:
                out.append(dict(kind='nested_array', type=p, n=draw(st.integers(1, 3))))
        elif k == 10:
            out.append(dict(kind='anon', union=draw(st.booleans()), members=draw(members(prev_types, depth + 1, allow_bf=False, n_max=3))))
        else:
            out.append(dict(kind='scalar', type=draw(st.sampled_from(['int', 'long', 'double', 'float', 'char']))))
    if all(m['kind'] == 'bf0' for m in out):  # a struct without a named member is undefined
        out.append(dict(kind='scalar', type='int'))
    return out


@st.composite
def layout_case(draw, ctx):
    ntypes = draw(st.integers(1, 3))
    types = []
    for i in range(ntypes):
        types.append(dict(name='T%d' % i, union=draw(st.integers(0, 5)) == 0, members=draw(members(['T%d' % j for j in range(i)], 0))))
    def has_ld(ms):
        for m in ms:
            if m.get('type') == 'long double':
                return True
            if m['kind'] in ('nested', 'nested_array') and has_ld(types[int(m['type'][1:])]['members']):
                return True
            if m['kind'] == 'anon' and has_ld(m['members']):
                return True
        return False
    # F53: 16-byte aligned aggregates passed in memory are misplaced on the stack (recorded finding)
    def nested_not_first(ms):
        return any(m['kind'] in ('nested', 'nested_array', 'anon') for m in ms[1:]) or any(
            m['kind'] in ('nested', 'nested_array') and nested_not_first(types[int(m['type'][1:])]['members']) for m in ms[:1])
    def union_with_zero_width(t):
        if t['union'] and any(m['kind'] == 'bf0' for m in t['members']):
            return True
        return any(m['kind'] in ('nested', 'nested_array') and union_with_zero_width(types[int(m['type'][1:])]) for m in t['members'])
    # gcc 12 ignores a zero-width bit-field when it classifies a struct but not when it classifies a union (the psABI
    # says "ignored"): such unions are laid out and printed, but not passed by value - the reference is ambiguous
    # F55: nested aggregates that do not start an eightbyte are misclassified (recorded finding)
    eligible = [i for i in range(ntypes) if not (ctx.excluded('F53') and has_ld(types[i]['members']))
                and not (ctx.excluded('F55') and nested_not_first(types[i]['members']))
                and not union_with_zero_width(types[i])]
    sigs = []
    for _ in range(draw(st.integers(1, 4)) if eligible else 0):
        a = draw(st.sampled_from(eligible))
        b = draw(st.one_of(st.none(), st.sampled_from(eligible)))
        sigs.append(dict(nl=draw(st.integers(0, 6)), nd=draw(st.integers(0, 8)), t=a, u=b, ret=draw(st.sampled_from(['long', 'T', 'double'])),
                         fp_first=draw(st.booleans())))
    return dict(types=types, sigs=sigs)


# ---------------------------------------------------------------- C text
def decl_members(ms, pfx, lines, names, indent='  '):
    for i, m in enumerate(ms):
        nm = '%sm%d' % (pfx, i)
        k = m['kind']
        if k == 'scalar':
            lines.append('%s%s %s;' % (indent, m['type'], nm)); names.append((nm, m))
        elif k == 'array':
            lines.append('%s%s %s[%d];' % (indent, m['type'], nm, m['n'])); names.append((nm, m))
        elif k == 'bf':
            lines.append('%s%s %s : %d;' % (indent, m['type'], nm, m['width'])); names.append((nm, m))
        elif k == 'bf0':
            lines.append('%s%s : 0;' % (indent, m['type']))
        elif k == 'nested':
            lines.append('%s%s %s;' % (indent, m['type'], nm)); names.append((nm, m))
        elif k == 'nested_array':
            lines.append('%s%s %s[%d];' % (indent, m['type'], nm, m['n'])); names.append((nm, m))
        elif k == 'anon':
            lines.append('%s%s {' % (indent, 'union' if m['union'] else 'struct'))
            sub = []
            decl_members(m['members'], nm + '_', lines, sub, indent + '  ')
            # members of an anonymous union overlap: only the first one is written and read (no type punning)
            names.extend(sub[:1] if m['union'] else sub)
            lines.append('%s};' % indent)


def is_fp(t):
    return t in ('float', 'double', 'long double')


def header(case):
    L = ['#include <stddef.h>', '#include <string.h>', 'enum E { EA, EB, EC = 70000 };']
    info = {}
    for t in case['types']:
        lines, names = [], []
        decl_members(t['members'], '', lines, names)
        L.append('typedef %s %s_s {' % ('union' if t['union'] else 'struct', t['name']))
        L += lines
        L.append('} %s;' % t['name'])
        info[t['name']] = (t, names)
    # fill / checksum per type (member-wise: padding is never read)
    for tn, (t, names) in info.items():
        f = ['static void fill_%s (%s *p, int seed) {' % (tn, tn), '  memset (p, 0, sizeof (*p));']
        c = ['static unsigned long cks_%s (const %s *p) {' % (tn, tn), '  unsigned long h = 17;']
        use = names[:1] if t['union'] else names  # a union holds its first member
        for j, (nm, m) in enumerate(use):
            k = m['kind']
            if k == 'scalar':
                ty = m['type']
                if ty == 'void *':
                    f.append('  p->%s = (void *) (unsigned long) (seed * 64 + %d);' % (nm, j))
                    c.append('  h = h * 31 + (unsigned long) p->%s;' % nm)
                elif ty == '_Bool':
                    f.append('  p->%s = (seed + %d) & 1;' % (nm, j))
                    c.append('  h = h * 31 + p->%s;' % nm)
                elif ty == 'enum E':
                    f.append('  p->%s = (seed + %d) %% 2 ? EC : EB;' % (nm, j))
                    c.append('  h = h * 31 + (unsigned long) p->%s;' % nm)
                elif is_fp(ty):
                    f.append('  p->%s = (%s) (seed * 3 + %d) / 4;' % (nm, ty, j))
                    c.append('  h = h * 31 + (unsigned long) (long) (p->%s * 8);' % nm)
                else:
                    f.append('  p->%s = (%s) (seed * 37 + %d * 11 - 50);' % (nm, ty, j))
                    c.append('  h = h * 31 + (unsigned long) (long) p->%s;' % nm)
            elif k == 'array':
                ty = m['type']
                for q in range(m['n']):
                    if is_fp(ty):
                        f.append('  p->%s[%d] = (%s) (seed + %d) / 2;' % (nm, q, ty, j + q))
                        c.append('  h = h * 31 + (unsigned long) (long) (p->%s[%d] * 4);' % (nm, q))
                    else:
                        f.append('  p->%s[%d] = (%s) (seed * 13 + %d);' % (nm, q, ty, j * 5 + q))
                        c.append('  h = h * 31 + (unsigned long) (long) p->%s[%d];' % (nm, q))
            elif k == 'bf':
                w = m['width']
                if m['signed']:
                    f.append('  p->%s = (seed + %d) %% 2 ? -1 : %d;' % (nm, j, 0 if w == 1 else 1))
                else:
                    f.append('  p->%s = (unsigned long) (seed * 5 + %d) & %dUL;' % (nm, j, (1 << min(w, 63)) - 1))
                c.append('  h = h * 31 + (unsigned long) (long) p->%s;' % nm)
            elif k == 'nested':
                f.append('  fill_%s (&p->%s, seed + %d);' % (m['type'], nm, j + 1))
                c.append('  h = h * 31 + cks_%s (&p->%s);' % (m['type'], nm))
            elif k == 'nested_array':
                for q in range(m['n']):
                    f.append('  fill_%s (&p->%s[%d], seed + %d);' % (m['type'], nm, q, j + q + 2))
                    c.append('  h = h * 31 + cks_%s (&p->%s[%d]);' % (m['type'], nm, q))
        f.append('}')
        c += ['  return h;', '}']
        L += f + c
    return '\n'.join(L) + '\n', info


def sig_text(case, i, s, name_only=False):
    T = 'T%d' % s['t']
    U = 'T%d' % s['u'] if s['u'] is not None else None
    ints = ['long l%d' % k for k in range(s['nl'])]
    dbls = ['double d%d' % k for k in range(s['nd'])]
    lead = (dbls + ints) if s['fp_first'] else (ints + dbls)
    params = lead + ['%s x' % T] + (['%s y' % U] if U else []) + ['int tail']
    ret = T if s['ret'] == 'T' else s['ret']
    return ret, 'f%d' % i, params, T, U


def lib_c(case, hdr):
    L = ['#include "t.h"']
    for i, s in enumerate(case['sigs']):
        ret, fn, params, T, U = sig_text(case, i, s)
        body = ['  unsigned long h = cks_%s (&x)%s + (unsigned long) tail * 7;' % (T, ' * 3 + cks_%s (&y)' % U if U else '')]
        for k in range(s['nl']):
            body.append('  h = h * 5 + (unsigned long) l%d;' % k)
        for k in range(s['nd']):
            body.append('  h = h * 5 + (unsigned long) (long) (d%d * 4);' % k)
        if ret == 'long':
            body.append('  return (long) h;')
        elif ret == 'double':
            body.append('  return (double) (h % 100000) / 8;')
        else:
            body.append('  %s r; fill_%s (&r, (int) (h %% 1000)); return r;' % (T, T))
        L.append('%s %s (%s) {\n%s\n}' % (ret, fn, ', '.join(params), '\n'.join(body)))
        # callback driver: calls a function of the same signature supplied by the other side
        L.append('%s drv_%s (%s (*cb) (%s), int seed) {' % (ret, fn, ret, ', '.join(params)))
        L.append('  %s x; fill_%s (&x, seed);' % (T, T))
        if U:
            L.append('  %s y; fill_%s (&y, seed + 3);' % (U, U))
        args = ['(long) (seed * 1000 + %d)' % k for k in range(s['nl'])]
        dargs = ['(double) (seed + %d) / 2' % k for k in range(s['nd'])]
        lead = (dargs + args) if s['fp_first'] else (args + dargs)
        L.append('  return cb (%s);' % ', '.join(lead + ['x'] + (['y'] if U else []) + ['seed + 9']))
        L.append('}')
    return '\n'.join(L) + '\n'


def main_c(case, info):
    L = ['#include "t.h"', 'int printf (const char *, ...);']
    for i, s in enumerate(case['sigs']):
        ret, fn, params, T, U = sig_text(case, i, s)
        L.append('extern %s %s (%s);' % (ret, fn, ', '.join(params)))
        L.append('extern %s drv_%s (%s (*cb) (%s), int seed);' % (ret, fn, ret, ', '.join(params)))
        # our own function of the same signature (compiled by the compiler under test), used as the callback
        body = ['  unsigned long h = cks_%s (&x)%s + (unsigned long) tail * 7;' % (T, ' * 3 + cks_%s (&y)' % U if U else '')]
        for k in range(s['nl']):
            body.append('  h = h * 5 + (unsigned long) l%d;' % k)
        for k in range(s['nd']):
            body.append('  h = h * 5 + (unsigned long) (long) (d%d * 4);' % k)
        if ret == 'long':
            body.append('  return (long) h;')
        elif ret == 'double':
            body.append('  return (double) (h % 100000) / 8;')
        else:
            body.append('  %s r; fill_%s (&r, (int) (h %% 1000)); return r;' % (T, T))
        L.append('static %s own_%s (%s) {\n%s\n}' % (ret, fn, ', '.join(params), '\n'.join(body)))
    L.append('static void dump (const char *what, const void *p, unsigned long n) {')
    L.append('  const unsigned char *b = p; printf ("%s:", what); for (unsigned long i = 0; i < n; i++) printf ("%02x", b[i]); printf ("\\n");')
    L.append('}')
    L.append('int main (void) {')
    L.append('  printf ("E %lu %lu\\n", (unsigned long) sizeof (enum E), (unsigned long) _Alignof (enum E));')
    for tn, (t, names) in info.items():
        L.append('  printf ("%s size %%lu align %%lu\\n", (unsigned long) sizeof (%s), (unsigned long) _Alignof (%s));' % (tn, tn, tn))
        for nm, m in names:
            if m['kind'] == 'bf':
                # placement: all other bits zero, this field all ones (0xff background then cleared field as well)
                L.append('  { %s o; memset (&o, 0, sizeof (o)); o.%s = %s; dump ("%s.%s set", &o, sizeof (o)); }' % (tn, nm, '-1' if m['signed'] else '~0UL', tn, nm))
                L.append('  { %s o; memset (&o, 0xff, sizeof (o)); o.%s = 0; dump ("%s.%s clr", &o, sizeof (o)); }' % (tn, nm, tn, nm))
            else:
                L.append('  printf ("%s.%s off %%lu size %%lu\\n", (unsigned long) offsetof (%s, %s), (unsigned long) sizeof (((%s *) 0)->%s));' % (tn, nm, tn, nm, tn, nm))
        L.append('  { %s o; fill_%s (&o, 5); printf ("%s cks %%lu\\n", cks_%s (&o)); }' % (tn, tn, tn, tn))
    for i, s in enumerate(case['sigs']):
        ret, fn, params, T, U = sig_text(case, i, s)
        for seed in (1, 4):
            L.append('  {')
            L.append('    %s x; fill_%s (&x, %d);' % (T, T, seed))
            if U:
                L.append('    %s y; fill_%s (&y, %d);' % (U, U, seed + 3))
            args = ['(long) (%d * 1000 + %d)' % (seed, k) for k in range(s['nl'])]
            dargs = ['(double) (%d + %d) / 2' % (seed, k) for k in range(s['nd'])]
            lead = (dargs + args) if s['fp_first'] else (args + dargs)
            call = '%s (%s)' % (fn, ', '.join(lead + ['x'] + (['y'] if U else []) + [str(seed + 9)]))
            if ret == 'long':
                L.append('    printf ("%s(%d) -> %%ld\\n", %s);' % (fn, seed, call))
                L.append('    printf ("drv_%s(%d) -> %%ld\\n", drv_%s (own_%s, %d));' % (fn, seed, fn, fn, seed))
            elif ret == 'double':
                L.append('    printf ("%s(%d) -> %%ld\\n", (long) (%s * 8));' % (fn, seed, call))
                L.append('    printf ("drv_%s(%d) -> %%ld\\n", (long) (drv_%s (own_%s, %d) * 8));' % (fn, seed, fn, fn, seed))
            else:
                L.append('    { %s r = %s; printf ("%s(%d) -> %%lu\\n", cks_%s (&r)); }' % (T, call, fn, seed, T))
                L.append('    { %s r = drv_%s (own_%s, %d); printf ("drv_%s(%d) -> %%lu\\n", cks_%s (&r)); }' % (T, fn, fn, seed, fn, seed, T))
            L.append('  }')
    L.append('  return 0;')
    L.append('}')
    return '\n'.join(L) + '\n'


def render(case):
    h, info = header(case)
    return '/* t.h */\n' + h + '/* lib.c */\n' + lib_c(case, h) + '/* main.c */\n' + main_c(case, info)


def run(cmd, cwd):
    try:
        r = subprocess.run(cmd, cwd=cwd, stdout=subprocess.PIPE, stderr=subprocess.PIPE, timeout=120,
                           env=dict(os.environ, ASAN_OPTIONS='detect_leaks=0:exitcode=99', LD_LIBRARY_PATH=cwd))
        return r.returncode, r.stdout.decode('latin-1'), r.stderr.decode('latin-1')
    except subprocess.TimeoutExpired:
        return -9, '', 'timeout'


def classify(case):
    labs = set()

    def walk(ms):
        for m in ms:
            k = m['kind']
            if k in ('bf', 'bf0'):
                labs.add('bitfield' if k == 'bf' else 'zero_width_bitfield')
            elif k == 'anon':
                labs.add('anonymous_member')
                walk(m['members'])
            elif k in ('nested', 'nested_array'):
                labs.add('nested_aggregate')
            elif k == 'scalar' and m['type'] == 'long double':
                labs.add('long_double_member')
            elif k == 'scalar' and is_fp(m['type']):
                labs.add('fp_member')
    for t in case['types']:
        walk(t['members'])
        if t['union']:
            labs.add('union')
    for s in case['sigs']:
        if s['u'] is not None:
            labs.add('two_aggregates_in_one_call')
        if s['nl'] >= 5 or s['nd'] >= 7:
            labs.add('registers_nearly_exhausted')
        if s['ret'] == 'T':
            labs.add('aggregate_result')
    return labs


def check(case, ctx):
    o = Outcome()
    for l in classify(case):
        o.label(l)
    o.sample = render(case)
    os.makedirs(TMP, exist_ok=True)
    d = tempfile.mkdtemp(prefix='c08_', dir=TMP)
    try:
        h, info = header(case)
        open(d + '/t.h', 'w').write(h)
        open(d + '/lib.c', 'w').write(lib_c(case, h))
        open(d + '/main.c', 'w').write(main_c(case, info))
        rc, out, err = run(['gcc', '-O1', '-w', '-std=gnu11', '-shared', '-fPIC', '-o', 'liblib.so', 'lib.c'], d)
        if rc != 0:
            return o.disc('gcc rejects lib.c: ' + (err.split('error:')[1].split('\n')[0].strip()[:60] if 'error:' in err else str(rc)))
        rc, out, err = run(['gcc', '-O1', '-w', '-std=gnu11', '-o', 'ref', 'main.c', '-L.', '-llib'], d)
        if rc != 0:
            return o.disc('gcc rejects main.c: ' + (err.split('error:')[1].split('\n')[0].strip()[:60] if 'error:' in err else str(rc)))
        rrc, rout, rerr = run(['./ref'], d)
        if rrc != 0:
            return o.disc('reference program fails (exit %d)' % rrc)
        # gcc -O0 must agree with gcc -O1: otherwise the generated text is not well defined
        rc, out, err = run(['gcc', '-O0', '-w', '-std=gnu11', '-o', 'ref0', 'main.c', 'lib.c'], d)
        r0rc, r0out, _ = run(['./ref0'], d) if rc == 0 else (1, '', '')
        if r0rc != 0 or r0out != rout:
            return o.disc('gcc -O0 and gcc -O1 disagree on the generated program')
        o.nontrivial = bool(classify(case) & {'bitfield', 'zero_width_bitfield', 'anonymous_member', 'two_aggregates_in_one_call', 'registers_nearly_exhausted',
                                              'fp_member', 'long_double_member', 'union', 'nested_aggregate'})
        for eng in ('-eg', '-ei'):
            crc, cout, cerr = run([C2M, '-w', 'main.c', '-L' + d, '-llib', eng], d)
            if crc == -9:
                return o.disc('timeout of c2m (machine load): inconclusive')
            if 'AddressSanitizer' in cerr:
                m = re.search(r'ERROR: AddressSanitizer: (\S+)', cerr)
                fr = re.search(r'#\d+ 0x[0-9a-f]+ in (\w+) /repo', cerr)
                return o.fail('asan:%s:%s' % (m.group(1) if m else '?', fr.group(1) if fr else '?'), 'c2m %s:\n%s' % (eng, cerr[:3000]))
            if crc != 0 and not cout:
                first = (cerr.strip().split('\n') or [''])[0]
                msg = re.sub(r'^[^:]*:\d+:\d+:\s*', '', first)
                return o.fail('C08:c2m-fails:' + re.sub(r'[^A-Za-z]+', '_', msg)[:40], 'c2m %s exits with %d:\n%s' % (eng, crc, cerr[:1500]))
            if cout != rout:
                rl, cl = rout.split('\n'), cout.split('\n')
                i = 0
                while i < len(rl) and i < len(cl) and rl[i] == cl[i]:
                    i += 1
                what = (rl[i] if i < len(rl) else cl[i] if i < len(cl) else '')
                kind = 'layout' if re.search(r' (size|off|set|clr|align)', what) or what.startswith('E ') else 'callback' if what.startswith('drv_') else 'call' if re.match(r'f\d', what) else 'value'
                return o.fail('C08:%s:%s' % (kind, eng[1:]), 'first differing line (%s):\n gcc: %s\n c2m: %s' % (eng, rl[i] if i < len(rl) else '<end>', cl[i] if i < len(cl) else '<end>'))
        return o
    finally:
        shutil.rmtree(d, ignore_errors=True)


if __name__ == '__main__':
    sys.exit(pyharness.main('C08', layout_case, check, render))
