"""C09 — c2mir's preprocessor expands macros and evaluates #if as C11 requires.
Differential check: `c2m -E` (built from /repo) against `gcc -E -P -std=c11` on generated macro definition sets,
invocation texts and #if trees. Compared: the pp-token sequence after a sentinel declaration (runs of punctuators
are merged, so only the printing of adjacent punctuators may differ)."""
import os, re, subprocess, sys, tempfile
sys.path.insert(0, os.path.dirname(os.path.abspath(__file__)))
import pyharness
from pyharness import Outcome
from hypothesis import strategies as st

C2M = os.environ.get('VERIF_C2M', '/verif/build/bin/c2m-asan')
TMP = os.environ.get('VERIF_TMP', '/verif/build/tmp')

IDENTS = ['a', 'b', 'xy', 'k9', 'zz']
NUMS = ['0', '1', '23', '7', '100']
PUNCT = ['+', '-', '*', '/', ';', '==', '<', '!', '&', '|', '%', '=']
PASTE_EDGE = IDENTS + ['1', '23', '0']

# ---------------------------------------------------------------- #if expressions (C semantics, intmax/uintmax)
M64 = 1 << 64


class Undef(Exception):
    pass


def _s(v):  # value representable as intmax_t?
    if not (-(1 << 63) <= v < (1 << 63)):
        raise Undef('signed overflow')
    return v


def ev(e, env):
    """e: nested tuple; returns (value, unsigned?)"""
    k = e[0]
    if k == 'lit':
        txt = e[1]
        m = re.match(r"^(0[xX][0-9a-fA-F]+|\d+)([uUlL]*)$", txt)
        v = int(m.group(1), 0) if not (len(m.group(1)) > 1 and m.group(1)[0] == '0' and m.group(1)[1] not in 'xX') else int(m.group(1), 8)
        uns = 'u' in m.group(2).lower()
        if not uns and v >= (1 << 63):
            if m.group(1)[0] == '0' and len(m.group(1)) > 1:
                uns = True  # hex/octal literals that do not fit intmax_t are unsigned
            else:
                raise Undef('decimal literal too large for intmax_t')
        return (v % M64, True) if uns else (v, False)
    if k == 'chr':
        return (ord(e[1]), False)
    if k == 'name':  # object-like macro with a literal body, or an undefined identifier (0)
        return ev(env[e[1]], env) if e[1] in env else (0, False)
    if k == 'defined':
        return (1 if e[1] in env or e[1] in env.get('__others__', ()) else 0, False)
    if k == 'par':
        return ev(e[1], env)
    if k == 'un':
        v, u = ev(e[2], env)
        if e[1] == '!':
            return (0 if v else 1, False)
        if e[1] == '~':
            return ((~v) % M64, True) if u else (_s(~v), False)
        if e[1] == '-':
            return ((-v) % M64, True) if u else (_s(-v), False)
        return (v, u)
    if k == 'tern':
        c, _ = ev(e[1], env)
        a, ua = ev(e[2], env)
        b, ub = ev(e[3], env)
        u = ua or ub
        r = a if c else b
        return (r % M64, True) if u else (r, False)
    op = e[1]
    a, ua = ev(e[2], env)
    b, ub = ev(e[3], env)
    if op in ('&&', '||'):
        return ((1 if (a and b) else 0) if op == '&&' else (1 if (a or b) else 0), False)
    if op in ('<<', '>>'):
        if (not ub and b < 0) or b >= 64:
            raise Undef('shift count')
        if not ua and a < 0:
            raise Undef('shift of a negative value')
        if op == '<<':
            return ((a << b) % M64, True) if ua else (_s(a << b), False)
        return (a >> b, ua)
    u = ua or ub
    if u:
        a %= M64
        b %= M64
    if op in ('/', '%'):
        if b == 0:
            raise Undef('division by zero')
        if u:
            r = a // b if op == '/' else a % b
        else:
            q = abs(a) // abs(b)
            if (a < 0) != (b < 0):
                q = -q
            _s(q)  # if the quotient is not representable both a / b and a % b are undefined (C11 6.5.5p6)
            r = q if op == '/' else a - q * b
        return (r % M64, True) if u else (_s(r), False)
    if op in ('+', '-', '*'):
        r = a + b if op == '+' else a - b if op == '-' else a * b
        return (r % M64, True) if u else (_s(r), False)
    if op in ('&', '|', '^'):
        r = a & b if op == '&' else a | b if op == '|' else a ^ b
        return (r % M64, True) if u else (_s(r), False)
    r = {'<': a < b, '>': a > b, '<=': a <= b, '>=': a >= b, '==': a == b, '!=': a != b}[op]
    return (1 if r else 0, False)


def etext(e):
    k = e[0]
    if k == 'lit':
        return e[1]
    if k == 'chr':
        return "'%s'" % e[1]
    if k == 'name':
        return e[1]
    if k == 'defined':
        return 'defined(%s)' % e[1] if e[2] else 'defined %s' % e[1]
    if k == 'par':
        return '(' + etext(e[1]) + ')'
    if k == 'un':
        return e[1] + ' ' + etext(e[2])
    if k == 'tern':
        return '(%s) ? (%s) : (%s)' % (etext(e[1]), etext(e[2]), etext(e[3]))
    return '(%s) %s (%s)' % (etext(e[2]), e[1], etext(e[3]))


LITS = ['0', '1', '2', '3', '7', '10', '63', '64', '100', '255', '0x7fffffff', '0xffffffff', '2147483648', '4294967296',
        '9223372036854775807', '0x8000000000000000', '0xffffffffffffffff', '1u', '0u', '2U', '3ul', '5L', '7LL', '18446744073709551615u',
        '010', '0x10']
BINOPS = ['+', '-', '*', '/', '%', '<<', '>>', '<', '>', '<=', '>=', '==', '!=', '&', '^', '|', '&&', '||']
NUMMACROS = {'N0': ('lit', '3'), 'N1': ('un', '-', ('lit', '2')), 'U0': ('lit', '5u'), 'BIG': ('lit', '0x7fffffffffffffff')}


def exprs(depth):
    leaf = st.one_of(st.sampled_from(LITS).map(lambda t: ('lit', t)),
                     st.sampled_from(list(NUMMACROS) + ['UNDEFINED_ID']).map(lambda n: ('name', n)),
                     st.tuples(st.sampled_from(['N0', 'U0', 'NOPE', 'F0']), st.booleans()).map(lambda t: ('defined', t[0], t[1])),
                     st.sampled_from(['a', 'Z', '0']).map(lambda c: ('chr', c)))
    if depth == 0:
        return leaf
    sub = exprs(depth - 1)
    return st.one_of(leaf,
                     st.tuples(st.sampled_from(['-', '~', '!', '+']), sub).map(lambda t: ('un', t[0], ('par', t[1]))),
                     st.tuples(st.sampled_from(BINOPS), sub, sub).map(lambda t: ('bin', t[0], t[1], t[2])),
                     st.tuples(sub, sub, sub).map(lambda t: ('tern', t[0], t[1], t[2])))


# ---------------------------------------------------------------- macro sets
@st.composite
def macro_case(draw, ctx):
    avoid_hash_and_paste = ctx.excluded('F11')
    nfn = draw(st.integers(1, 4))
    nobj = draw(st.integers(0, 3))
    sigs = []  # (name, kind, nparams, variadic)
    for i in range(nfn):
        sigs.append(('F%d' % i, 'fn', draw(st.integers(0, 3)), draw(st.integers(0, 2)) == 0))
    for i in range(nobj):
        sigs.append(('O%d' % i, 'obj', 0, False))
    order = draw(st.permutations(list(range(len(sigs)))))
    sigs = [sigs[i] for i in order]
    by_name = {s[0]: s for s in sigs}
    feats = set()

    def plain():
        return draw(st.sampled_from(IDENTS + NUMS + PUNCT))

    def arg_tokens(depth, avail, edge_only=False):
        if edge_only:  # argument that meets ## : its edge tokens are identifiers / decimal numbers, or it is empty
            k = draw(st.integers(0, 3))
            if k == 0:
                feats.add('empty_argument')
                return ''
            return ' '.join(draw(st.sampled_from(PASTE_EDGE)) for _ in range(1 if k < 3 else 2))
        n = draw(st.integers(0, 3))
        if n == 0:
            feats.add('empty_argument')
        out = []
        for _ in range(n):
            c = draw(st.integers(0, 9))
            if c <= 4:
                out.append(plain() if draw(st.booleans()) else draw(st.sampled_from(IDENTS + NUMS)))
            elif c == 5:
                feats.add('comma_in_parens')
                out.append('(' + draw(st.sampled_from(IDENTS)) + ', ' + draw(st.sampled_from(NUMS)) + ')')
            elif c <= 8 and depth > 0 and avail:
                out.append(call(draw(st.sampled_from(avail)), depth - 1, avail))
            else:
                out.append(draw(st.sampled_from(IDENTS)))
        # commas only inside parentheses; ';' would be fine but keeps lines readable without it
        return ' '.join(t for t in out if t not in (',',))

    paste_params = {}  # macro name -> set of parameter indexes adjacent to ##

    alias_target = {}  # object-like macro -> function-like macro it (transitively) stands for

    def call(name, depth, avail):
        nm, kind, np_, var = by_name[name]
        if kind == 'obj' and nm in alias_target:  # an alias is called with the arguments of its target
            feats.add('call_through_alias')
            t = call(alias_target[nm], depth, avail)
            return nm + t[t.index('('):]
        if kind == 'obj':
            return nm
        if depth >= 1:
            feats.add('nested_call')
        args = [arg_tokens(depth, avail, edge_only=(i in paste_params.get(nm, ()))) for i in range(np_)]
        if var:
            feats.add('variadic')
            args += [arg_tokens(0, avail) or draw(st.sampled_from(IDENTS)) for _ in range(draw(st.integers(1, 3)))]
        return '%s(%s)' % (nm, ', '.join(args))

    defs = []
    done = []  # names defined so far (may be referenced freely)
    for idx, (nm, kind, np_, var) in enumerate(sigs):
        params = ['p', 'q', 'r'][:np_]
        later = [s[0] for s in sigs[idx + 1:]]
        body = []
        uses_hash = uses_paste = False
        if kind == 'obj' and done and draw(st.integers(0, 2)) == 0:
            fns = [d for d in done if by_name[d][1] == 'fn' or d in alias_target]
            if fns:  # alias: the replacement list ends in the name of a function-like macro (or of another alias)
                tgt = draw(st.sampled_from(fns))
                form = draw(st.integers(0, 2))
                feats.add('alias_of_alias' if tgt in alias_target else 'alias_of_function_like')
                if form == 2:
                    feats.add('alias_through_identity_macro')
                defs.append('#define %s %s' % (nm, 'IDM(%s)' % tgt if form == 2 else tgt))
                alias_target[nm] = alias_target.get(tgt, tgt)
                done.append(nm)
                continue
        n = draw(st.integers(0, 6))
        for pos in range(n):
            c = draw(st.integers(0, 11))
            if c <= 2:
                body.append(plain())
            elif c <= 4 and params:
                body.append(draw(st.sampled_from(params)))
            elif c == 5 and params and kind == 'fn' and not (avoid_hash_and_paste and uses_paste):
                uses_hash = True
                feats.add('stringify')
                body.append('#' + draw(st.sampled_from(params)))
            elif c == 6 and not (avoid_hash_and_paste and uses_hash):
                # paste: operands are parameters (their arguments are then restricted) or identifiers / numbers
                def operand(left):
                    if params and draw(st.booleans()):
                        i = draw(st.integers(0, len(params) - 1))
                        paste_params.setdefault(nm, set()).add(i)
                        return params[i]
                    return draw(st.sampled_from(IDENTS + (['1', '23'] if not left else ['1'])))
                uses_paste = True
                feats.add('paste')
                body.append(operand(True) + ' ## ' + operand(False))
            elif c == 7 and var:
                feats.add('va_args')
                if kind == 'fn' and draw(st.integers(0, 1)) == 0:
                    feats.add('stringify_va_args')
                    body.append('#__VA_ARGS__')
                else:
                    body.append('__VA_ARGS__')
            elif c == 8:
                feats.add('self_reference')
                body.append(call(nm, 0, done) if kind == 'fn' else nm)
            elif c == 9 and later and draw(st.booleans()):
                feats.add('forward_reference_cycle_possible')
                body.append(call(draw(st.sampled_from(later)), 0, done))
            elif c >= 9 and done:
                body.append(call(draw(st.sampled_from(done)), 1, done))
            else:
                body.append(plain())
        # a parameter adjacent to ## must not also be stringified next to it; keep bodies from ending in a bare
        # function-like name (whether the following text completes a call is unspecified for recursive sets)
        if body and re.fullmatch(r'F\d', body[-1]):
            body.append(';')
        if kind == 'fn':
            ps = ', '.join(params + (['...'] if var else []))
            defs.append('#define %s(%s) %s' % (nm, ps, ' '.join(body)))
        else:
            defs.append('#define %s %s' % (nm, ' '.join(body)))
        done.append(nm)
    # invocation text
    lines = []
    for _ in range(draw(st.integers(1, 5))):
        toks = []
        for _ in range(draw(st.integers(1, 4))):
            c = draw(st.integers(0, 9))
            if c <= 1:
                toks.append(plain())
            elif c == 2:
                fns = [s[0] for s in sigs if s[1] == 'fn']
                feats.add('function_like_name_without_call')
                toks.append(draw(st.sampled_from(fns)) + ' ' + draw(st.sampled_from(['+', ';', 'a'])))
            else:
                toks.append(call(draw(st.sampled_from(done)), 2, done))
        lines.append(' '.join(toks) + ' ;')
    # #if trees
    conds = []
    for t in range(draw(st.integers(0, 3))):
        e1 = draw(exprs(draw(st.integers(0, 3))))
        e2 = draw(exprs(draw(st.integers(0, 2))))
        conds.append((e1, e2, draw(st.booleans())))
    return dict(defs=defs, lines=lines, conds=[(etext(a), etext(b), c) for a, b, c in conds],
                cond_trees=[(a, b) for a, b, _ in conds], feats=sorted(feats))


def render(case):
    s = ['#define N0 3', '#define N1 (-2)', '#define U0 5u', '#define BIG 0x7fffffffffffffff', '#define IDM(x) x'] + case['defs']
    s.append('int SENTINEL_C09;')
    s += case['lines']
    for i, (a, b, nested) in enumerate(case['conds']):
        s.append('#if %s\n T%d_if;\n#elif %s\n T%d_elif;\n#else\n T%d_else;\n#endif' % (a, i, b, i, i))
        if nested:
            s.append('#ifdef F0\n#ifndef NOPE\n T%d_nested;\n#endif\n#endif' % i)
    return '\n'.join(s) + '\n'


TOK = re.compile(r'''\s+|("(?:\\.|[^"\\])*")|('(?:\\.|[^'\\])*')|([A-Za-z_]\w*)|(\.?\d(?:[eEpP][+-]|[\w.])*)|(.)''', re.S)


def tokens(text):
    i = text.rfind('SENTINEL_C09')
    if i < 0:
        return None
    text = text[i + len('SENTINEL_C09'):]
    text = '\n'.join(l for l in text.split('\n') if not l.lstrip().startswith('#'))
    out = []
    for m in TOK.finditer(text):
        if m.group(0).isspace():
            if out and out[-1][0] == 'p':
                out.append(('sep', ''))
            continue
        if m.group(5):
            if out and out[-1][0] == 'p':
                out[-1] = ('p', out[-1][1] + m.group(5))
            else:
                if out and out[-1][0] == 'sep':
                    out.pop()
                    if out and out[-1][0] == 'p':
                        out[-1] = ('p', out[-1][1] + m.group(5))
                        continue
                out.append(('p', m.group(5)))
        else:
            if out and out[-1][0] == 'sep':
                out.pop()
            out.append(('t', m.group(0)))
    return [t[1] for t in out if t[0] != 'sep']


def run(cmd, inp=None):
    try:
        r = subprocess.run(cmd, stdout=subprocess.PIPE, stderr=subprocess.PIPE, timeout=60, env=dict(os.environ, ASAN_OPTIONS='detect_leaks=0:exitcode=99'))
        return r.returncode, r.stdout.decode('latin-1'), r.stderr.decode('latin-1')
    except subprocess.TimeoutExpired:
        return -9, '', 'timeout'


def check(case, ctx):
    o = Outcome()
    src = render(case)
    o.sample = src
    for f in case['feats']:
        o.label(f)
    env = dict(NUMMACROS)
    env['__others__'] = set(d.split()[1].split('(')[0] for d in case['defs'])
    mixed = False
    for a, b in case.get('cond_trees', []):
        for e in (a, b):
            try:
                ev(tuple_of(e), env)
            except Undef as u:
                return o.disc('undefined #if expression: ' + str(u))
            if has_mixed(tuple_of(e)):
                mixed = True
    if case['conds']:
        o.label('if_tree')
    if mixed:
        o.label('if_mixed_signedness')
    os.makedirs(TMP, exist_ok=True)
    fd, path = tempfile.mkstemp(suffix='.c', prefix='c09_', dir=TMP)
    os.write(fd, src.encode())
    os.close(fd)
    try:
        grc, gout, gerr = run(['gcc', '-E', '-P', '-std=c11', path])
        if grc != 0:
            return o.disc('gcc rejects the generated text: ' + (gerr.split('error:')[1].split('\n')[0].strip() if 'error:' in gerr else 'exit %d' % grc)[:60])
        crc, cout, cerr = run([C2M, '-E', path])
        if crc == -9 or grc == -9:
            return o.disc('timeout (machine load): inconclusive')
    finally:
        os.unlink(path)
    deep = len(re.findall(r'F\d\([^()]*F\d\(', src)) > 0
    o.nontrivial = bool(set(case['feats']) & {'stringify', 'paste', 'va_args', 'self_reference', 'nested_call', 'alias_of_function_like', 'alias_of_alias', 'call_through_alias'}) or mixed or deep
    if crc != 0:
        if 'AddressSanitizer' in cerr or crc == 99:
            m = re.search(r'ERROR: AddressSanitizer: (\S+)', cerr)
            fr = re.search(r'#\d+ 0x[0-9a-f]+ in (\w+) /repo', cerr)
            return o.fail('asan:%s:%s' % (m.group(1) if m else '?', fr.group(1) if fr else '?'), cerr[:3000])
        first = (cerr.strip().split('\n') or [''])[0]
        msg = re.sub(r'^[^:]*:\d+:\d+:\s*', '', first)
        msg = re.sub(r'["\'].*?["\']', '', msg)
        return o.fail('C09:c2m-rejects:' + re.sub(r'[^A-Za-z#]+', '_', msg)[:50], 'c2m -E fails (exit %d) on text gcc -E accepts:\n%s' % (crc, cerr[:1500]))
    gt, ct = tokens(gout), tokens(cout)
    if gt is None or ct is None:
        return o.fail('C09:no-sentinel', 'sentinel declaration missing from the output of %s' % ('gcc' if gt is None else 'c2m'))
    if gt != ct:
        i = 0
        while i < len(gt) and i < len(ct) and gt[i] == ct[i]:
            i += 1
        kind = 'if-group' if any(re.fullmatch(r'T\d_\w+', t) for t in gt[i:i + 1] + ct[i:i + 1]) else 'expansion'
        return o.fail('C09:%s-differs' % kind, 'token %d: gcc `%s`, c2m `%s`\n gcc: %s\n c2m: %s' % (i, ' '.join(gt[i:i + 6]), ' '.join(ct[i:i + 6]), ' '.join(gt)[:1500], ' '.join(ct)[:1500]))
    return o


def tuple_of(e):
    return tuple(tuple_of(x) if isinstance(x, (list, tuple)) else x for x in e)


def has_mixed(e):
    """a binary / conditional operator with one unsigned and one signed operand"""
    def typ(e):
        try:
            return ev(e, dict(NUMMACROS))[1]
        except Undef:
            return False
    if not isinstance(e, tuple):
        return False
    if e[0] == 'bin' and e[1] not in ('&&', '||', '<<', '>>') and typ(e[2]) != typ(e[3]):
        return True
    if e[0] == 'tern' and typ(e[2]) != typ(e[3]):
        return True
    return any(has_mixed(x) for x in e[1:] if isinstance(x, tuple))


if __name__ == '__main__':
    sys.exit(pyharness.main('C09', macro_case, check, render))
