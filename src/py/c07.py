"""C07 — C programs compiled by c2mir behave as under the reference C compiler.
Hypothesis generates UB-free C11 programs (typed expression grammar over every arithmetic type with integer promotions
and usual arithmetic conversions, wrapping helpers for signed arithmetic, guarded division / shifts / FP->int
conversions; bit-fields incl. the value of assignments and ++/--; arrays, structs by value, function calls, loops,
switch, ?:, &&/||; the same constant expression evaluated at compile time (enum / static initialiser) and at run
time over volatile copies). Oracle: stdout + exit status of gcc -O0 (gcc -O2 must agree, else the case is discarded
as generator error) vs c2m -ei, -eg -O0..-O3, -el, -eb."""
import os, re, subprocess, sys, tempfile, shutil
sys.path.insert(0, os.path.dirname(os.path.abspath(__file__)))
import pyharness
from pyharness import Outcome
from hypothesis import strategies as st

C2M = os.environ.get('VERIF_C2M', '/verif/build/bin/c2m-asan')
TMP = os.environ.get('VERIF_TMP', '/verif/build/tmp')

# name, bits, signed, rank
ITYPES = {'_Bool': (1, False, 0), 'char': (8, True, 1), 'long long': (64, True, 5), 'unsigned long long': (64, False, 5), 'signed char': (8, True, 1), 'unsigned char': (8, False, 1), 'short': (16, True, 2), 'unsigned short': (16, False, 2),
          'int': (32, True, 3), 'unsigned': (32, False, 3), 'long': (64, True, 4), 'unsigned long': (64, False, 4)}
FTYPES = ['float', 'double']
ALLT = list(ITYPES) + FTYPES
ALLT_CUR = list(ALLT)  # the types of the program being generated (see program())
UNS = {'signed char': 'unsigned char', 'char': 'unsigned char', 'short': 'unsigned short', 'int': 'unsigned', 'long': 'unsigned long', 'long long': 'unsigned long long'}


def is_int(t):
    return t in ITYPES


def promote(t):
    if not is_int(t):
        return t
    b, s, r = ITYPES[t]
    return 'int' if r < 3 else t


def uac(a, b):
    if a == 'double' or b == 'double':
        return 'double'
    if a == 'float' or b == 'float':
        return 'float'
    a, b = promote(a), promote(b)
    if a == b:
        return a
    ba, sa, ra = ITYPES[a]
    bb, sb, rb = ITYPES[b]
    if sa == sb:
        return a if ra >= rb else b
    u, s_ = (a, b) if not sa else (b, a)
    if ITYPES[u][2] >= ITYPES[s_][2]:
        return u
    if ITYPES[s_][0] > ITYPES[u][0]:
        return s_
    return UNS[s_]


def lit(draw, t):
    if t in FTYPES:
        v = draw(st.sampled_from(['0.0', '1.0', '0.5', '-2.25', '3.0', '100.0', '-0.125', '7.5', '1e3', '16777217.0', '0.1']))
        return v + ('f' if t == 'float' else '')
    b, s, r = ITYPES[t]
    hi = (1 << (b - 1)) - 1 if s else (1 << b) - 1
    v = draw(st.one_of(st.integers(0, 9), st.sampled_from([hi, hi - 1, hi // 2, 255, 256, 65535, 65536, 127, 128, 0x7fffffff, 0x80000000, 0xffffffff]),
                       st.integers(0, hi)))
    v = min(v, hi)
    neg = s and draw(st.integers(0, 3)) == 0
    suf = {'unsigned': 'u', 'long': 'l', 'unsigned long': 'ul', 'long long': 'll', 'unsigned long long': 'ull'}.get(promote(t), '')
    if promote(t) == 'int' and v > 0x7fffffff:
        v = 0x7fffffff
    txt = '%d%s' % (v, suf)
    if neg:
        txt = '(-%s - 1)' % txt if v == hi else '(-%s)' % txt
    return '((%s) %s)' % (t, txt) if t != promote(t) else txt


class Env:
    def __init__(self):
        self.vars = []  # (expr text, type, assignable)
        self.feats = set()


@st.composite
def expr(draw, env, depth, want=None, const_only=False):
    """returns (text, type); pure (no side effects)"""
    leaves = [v for v in env.vars if not const_only]
    if depth <= 0 or draw(st.integers(0, 5)) == 0:
        if leaves and draw(st.integers(0, 2)) > 0:
            txt, t, _ = draw(st.sampled_from(leaves))
            return txt, t
        t = want or draw(st.sampled_from(ALLT_CUR))
        return lit(draw, t), t
    k = draw(st.integers(0, 13))
    a, ta = draw(expr(env, depth - 1, None, const_only))
    if k <= 4:  # + - *
        b, tb = draw(expr(env, depth - 1, None, const_only))
        op = draw(st.sampled_from(['+', '-', '*']))
        t = uac(ta, tb)
        if is_int(ta) and is_int(tb) and ITYPES[ta][1] != ITYPES[tb][1]:
            env.feats.add('mixed_signedness')
        if is_int(ta) and is_int(tb) and ITYPES[ta][2] != ITYPES[tb][2]:
            env.feats.add('mixed_rank')
        if t in ('int', 'long', 'long long'):  # would overflow: compute in the unsigned type, convert back (wraps)
            return '((%s) ((%s) (%s) %s (%s) (%s)))' % (t, UNS[t], a, op, UNS[t], b), t
        if t in FTYPES and op == '*':
            op = '+'  # keep FP magnitudes bounded
        return '((%s) %s (%s))' % (a, op, b), t
    if k == 5 and is_int(ta):  # / %
        b, tb = draw(expr(env, depth - 1, None, const_only))
        if not is_int(tb):
            return a, ta
        t = uac(ta, tb)
        op = draw(st.sampled_from(['/', '%']))
        env.feats.add('division')
        mn = '(-0x7fffffff - 1)' if t == 'int' else '(-0x7fffffffffffffffl - 1)' if t == 'long' else '(-0x7fffffffffffffffll - 1)'
        guard = '((%s) (%s) == 0' % (t, b) + (' || ((%s) (%s) == %s && (%s) (%s) == -1)' % (t, a, mn, t, b) if t in ('int', 'long', 'long long') else '') + ')'
        return '(%s ? (%s) (%s) : ((%s) %s (%s)))' % (guard, t, a, a, op, b), t
    if k == 6 and is_int(ta):  # shifts
        b, tb = draw(expr(env, depth - 1, None, const_only))
        if not is_int(tb):
            return a, ta
        t = promote(ta)
        bits = ITYPES[t][0]
        if draw(st.booleans()):
            ut = UNS.get(t, t)
            return '((%s) ((%s) (%s) << ((%s) & %d)))' % (t, ut, a, b, bits - 1), t
        env.feats.add('right_shift')
        return '((%s) >> ((%s) & %d))' % (a, b, bits - 1), t
    if k == 7 and is_int(ta):  # & | ^
        b, tb = draw(expr(env, depth - 1, None, const_only))
        if not is_int(tb):
            return a, ta
        return '((%s) %s (%s))' % (a, draw(st.sampled_from(['&', '|', '^'])), b), uac(ta, tb)
    if k == 8:  # comparison
        b, tb = draw(expr(env, depth - 1, None, const_only))
        if is_int(ta) and is_int(tb) and ITYPES[promote(ta)][1] != ITYPES[promote(tb)][1]:
            env.feats.add('mixed_signedness_comparison')
        return '((%s) %s (%s))' % (a, draw(st.sampled_from(['<', '>', '<=', '>=', '==', '!='])), b), 'int'
    if k == 9:  # logical
        b, tb = draw(expr(env, depth - 1, None, const_only))
        return '((%s) %s (%s))' % (a, draw(st.sampled_from(['&&', '||'])), b), 'int'
    if k == 10:  # ?:
        b, tb = draw(expr(env, depth - 1, None, const_only))
        c, tc = draw(expr(env, depth - 1, None, const_only))
        env.feats.add('conditional')
        return '((%s) ? (%s) : (%s))' % (a, b, c), uac(tb, tc)
    if k == 11:  # cast
        t = draw(st.sampled_from(ALLT_CUR))
        env.feats.add('cast')
        if is_int(t) and not is_int(ta):  # FP -> integer only in range
            return '(((%s) > -1e9 && (%s) < 1e9) ? (%s) (long) (%s) : (%s) 0)' % (a, a, t, a, t), t
        return '((%s) (%s))' % (t, a), t
    if k == 12:  # unary
        if is_int(ta):
            t = promote(ta)
            op = draw(st.sampled_from(['-', '~', '!']))
            if op == '!':
                return '(!(%s))' % a, 'int'
            if op == '-' and t in ('int', 'long', 'long long'):
                return '((%s) (0u - (%s) (%s)))' % (t, UNS[t], a), t
            return '(%s(%s))' % (op, a), t
        return '(-(%s))' % a, ta
    return a, ta


@st.composite
def program(draw, ctx):
    # F68: c2mir truncates instead of comparing with 0 when it converts to _Bool (recorded finding)
    ALLT_CUR[:] = [t for t in ALLT if not (t == '_Bool' and ctx.excluded('F68'))]
    env = Env()
    L = ['int printf (const char *, ...);', 'static unsigned long chk = 1;',
         '#define ACC(e) (chk = chk * 1000003ul + (unsigned long) (e))',
         'static void accd (double d) { ACC ((d > -1e15 && d < 1e15) ? (long) (d * 64) : (d != d) ? 7 : d > 0 ? 3 : 5); }',
         '#define ACCD(e) accd ((double) (e))']
    # globals
    gl = []
    for i in range(draw(st.integers(2, 6))):
        t = draw(st.sampled_from(ALLT_CUR))
        gl.append(('g%d' % i, t))
        L.append('static %s g%d = %s;' % (t, i, lit(draw, t)))
    at = draw(st.sampled_from([t for t in ALLT_CUR if is_int(t)]))
    L.append('static %s arr[4] = {%s};' % (at, ', '.join(lit(draw, at) for _ in range(4))))
    # struct with plain members and one with bit-fields
    st_t = [draw(st.sampled_from(ALLT_CUR)) for _ in range(draw(st.integers(1, 4)))]
    L.append('struct S { %s };' % ' '.join('%s f%d;' % (t, i) for i, t in enumerate(st_t)))
    L.append('static struct S gs;')
    bfs = []
    for i in range(draw(st.integers(1, 4))):
        sg = draw(st.booleans())
        w = draw(st.sampled_from([1, 2, 3, 5, 7, 8, 9, 13, 16, 17, 24, 31, 32]))
        base = draw(st.sampled_from(['int', 'long', 'short', 'char']))
        maxw = {'int': 32, 'long': 64, 'short': 16, 'char': 8}[base]
        if base == 'long':
            w = draw(st.sampled_from([w, 33, 47, 63, 64]))
        w = min(w, maxw)
        bfs.append(('b%d' % i, sg, w, base))
    L.append('struct B { %s };' % ' '.join('%s %s %s : %d;' % ('signed' if sg else 'unsigned', base, n, w) for n, sg, w, base in bfs))
    L.append('static struct B gb;')
    env.vars = [(n, t, True) for n, t in gl] + [('arr[%d]' % i, at, True) for i in range(4)] + [('gs.f%d' % i, t, True) for i, t in enumerate(st_t)]
    # reading a bit-field: its type for promotion purposes is int / long etc.
    def bf_type(sg, w, base):
        if base == 'long':
            return 'long' if sg else 'unsigned long'
        if w < 32 or sg:
            return 'int'  # promoted: fits int
        return 'unsigned'
    # a bit-field wider than int has an implementation-defined type: it is read through a cast to its declared type
    env.vars += [(('((%s) gb.%s)' % (bf_type(sg, w, base), n)) if base == 'long' else 'gb.%s' % n, bf_type(sg, w, base), False) for n, sg, w, base in bfs]
    # compile-time vs run-time evaluation of one constant expression
    cenv = Env()
    ce, cet = draw(expr(cenv, 3, 'int', const_only=True))
    if is_int(cet):
        L.append('enum { KC = (int) ((%s) & 0xffff) };' % ce)
        env.feats.add('enum_constant_expression')
    L.append('static %s kinit = (%s) (%s);' % (cet, cet, ce))
    # functions
    nfun = draw(st.integers(1, 3))
    protos = []
    for fi in range(nfun):
        pt = [draw(st.sampled_from(ALLT_CUR)) for _ in range(draw(st.integers(0, 4)))]
        rt = draw(st.sampled_from(ALLT_CUR))
        by_struct = draw(st.integers(0, 3)) == 0
        protos.append((fi, rt, pt, by_struct))
    for fi, rt, pt, by_struct in protos:
        fenv = Env()
        fenv.feats = env.feats
        params = ['%s p%d' % (t, i) for i, t in enumerate(pt)] + (['struct S sp'] if by_struct else [])
        fenv.vars = list(env.vars) + [('p%d' % i, t, True) for i, t in enumerate(pt)] + ([('sp.f%d' % i, t, True) for i, t in enumerate(st_t)] if by_struct else [])
        body = []
        nloc = draw(st.integers(0, 3))
        for li in range(nloc):
            t = draw(st.sampled_from(ALLT_CUR))
            e, te = draw(expr(fenv, 2))
            body.append('  %s l%d = (%s) (%s);' % (t, li, t, safe_conv(e, te, t)))
            fenv.vars.append(('l%d' % li, t, True))
        body += draw(stmts(fenv, bfs, 2, [p for p in protos if p[0] < fi], st_t))
        e, te = draw(expr(fenv, 2))
        body.append('  return (%s) (%s);' % (rt, safe_conv(e, te, rt)))
        L.append('static %s f%d (%s) {\n%s\n}' % (rt, fi, ', '.join(params) if params else 'void', '\n'.join(body)))
    # main
    M = ['int main (void) {']
    menv = Env()
    menv.feats = env.feats
    menv.vars = list(env.vars)
    M.append('  { volatile %s vk = (%s) (%s); ACC (vk == kinit); %s }' % (cet, cet, volatile_version(ce), 'ACC (KC);' if is_int(cet) else ''))
    M += draw(stmts(menv, bfs, 2, protos, st_t))
    for n, t in gl:
        M.append('  %s (%s);' % ('ACC' if is_int(t) else 'ACCD', n))
    for n, sg, w, base in bfs:
        M.append('  ACC (gb.%s);' % n)
    M.append('  printf ("%lu\\n", chk);')
    M.append('  return (int) (chk & 0x7f);')
    M.append('}')
    return dict(src='\n'.join(L + M) + '\n', feats=sorted(env.feats))


def safe_conv(e, te, t):
    """convert expression e of type te to type t without UB"""
    if is_int(t) and not is_int(te):
        return '((%s) > -1e9 && (%s) < 1e9) ? (long) (%s) : 0' % (e, e, e)
    return e


def volatile_version(ce):
    return ce  # the literals are re-evaluated at run time through a volatile temporary in main


@st.composite
def stmts(draw, env, bfs, depth, callable_, st_t):
    out = []
    for _ in range(draw(st.integers(1, 5))):
        k = draw(st.integers(0, 11))
        assignable = [v for v in env.vars if v[2]]
        if k <= 2 and assignable:
            n, t, _ = draw(st.sampled_from(assignable))
            e, te = draw(expr(env, 3))
            out.append('  %s = (%s) (%s);' % (n, t, safe_conv(e, te, t)))
        elif k == 3 and bfs:  # bit-field store, and the value of the assignment expression
            n, sg, w, base = draw(st.sampled_from(bfs))
            e, te = draw(expr(env, 2))
            e = safe_conv(e, te, 'long')
            if sg:  # keep the value in range: conversion of an out-of-range value to a signed bit-field is implementation-defined
                e = '((long) (%s) %% %d)' % ('((%s) & 0x3fffffff)' % e if not is_int(te) else '(long) (%s) & 0x3fffffff' % e, 1 << (w - 1)) if w > 1 else '0'
            form = draw(st.integers(0, 3))
            env.feats.add('bitfield_store')
            if form == 0:
                out.append('  gb.%s = %s;' % (n, e))
            elif form == 1:
                env.feats.add('value_of_bitfield_assignment')
                out.append('  ACC (gb.%s = %s);' % (n, e))
            elif form == 2 and not sg:
                env.feats.add('bitfield_increment')
                out.append('  ACC (%sgb.%s);' % (draw(st.sampled_from(['++', '--'])), n))
                out.append('  ACC (gb.%s%s);' % (n, draw(st.sampled_from(['++', '--']))))
            else:
                env.feats.add('bitfield_compound_assignment')
                out.append('  ACC (gb.%s %s= %s);' % (n, draw(st.sampled_from(['+', '^', '|', '&'])) if not sg else '&', '(%s) & 7' % e))
        elif k == 4 and depth > 0:
            c, _ = draw(expr(env, 2))
            a = draw(stmts(env, bfs, depth - 1, callable_, st_t))
            b = draw(stmts(env, bfs, depth - 1, callable_, st_t))
            out.append('  if (%s) {\n%s\n  } else {\n%s\n  }' % (c, '\n'.join(a), '\n'.join(b)))
        elif k == 5 and depth > 0:
            env.feats.add('loop')
            iv = 'i%d' % depth
            inner = Env()
            inner.feats = env.feats
            inner.vars = env.vars + [(iv, 'int', False)]
            a = draw(stmts(inner, bfs, depth - 1, callable_, st_t))
            out.append('  for (int %s = 0; %s < %d; %s++) {\n%s\n  }' % (iv, iv, draw(st.integers(1, 5)), iv, '\n'.join(a)))
        elif k == 6 and depth > 0:
            env.feats.add('switch')
            e, te = draw(expr(env, 2))
            e = safe_conv(e, te, 'long')
            cases = []
            for cv in draw(st.lists(st.integers(0, 3), min_size=1, max_size=3, unique=True)):
                a = draw(stmts(env, bfs, depth - 1, callable_, st_t))
                cases.append('  case %d:\n%s\n  %s' % (cv, '\n'.join(a), 'break;' if draw(st.booleans()) else '/* falls through */'))
            out.append('  switch ((int) ((unsigned long) (%s) & 3)) {\n%s\n  default: ACC (77);\n  }' % (e, '\n'.join(cases)))
        elif k == 7 and callable_:
            fi, rt, pt, by_struct = draw(st.sampled_from(callable_))
            args = []
            for t in pt:
                e, te = draw(expr(env, 2))
                args.append('(%s) (%s)' % (t, safe_conv(e, te, t)))
            if by_struct:
                env.feats.add('struct_by_value')
                args.append('gs')
            env.feats.add('call')
            out.append('  %s (f%d (%s));' % ('ACC' if is_int(rt) else 'ACCD', fi, ', '.join(args)))
        elif k == 8:
            env.feats.add('struct_copy')
            out.append('  { struct S t = gs; t.f0 = (%s) 1; ACC (sizeof (t)); gs = t; }' % st_t[0])
        elif k == 9 and assignable:
            n, t, _ = draw(st.sampled_from(assignable))
            if t in FTYPES or not ITYPES[t][1] or ITYPES[t][2] < 3:
                e, te = draw(expr(env, 2))
                if is_int(t) and not is_int(te):
                    e = '(' + safe_conv(e, te, t) + ')'
                elif not is_int(t):
                    e = '(%s)' % e
                op = draw(st.sampled_from(['+', '-'] + (['&', '|', '^'] if is_int(t) and is_int(te) else [])))
                if is_int(t) and is_int(te) and uac(t, te) in ('int', 'long', 'long long'):
                    op = draw(st.sampled_from(['&', '|', '^']))  # the addition would be done in a signed type
                env.feats.add('compound_assignment')
                out.append('  %s %s= %s;' % (n, op, e))
            else:
                out.append('  ACC (%s);' % n)
        else:
            e, te = draw(expr(env, 3))
            out.append('  %s (%s);' % ('ACC' if is_int(te) else 'ACCD', safe_conv(e, te, 'long') if not is_int(te) and False else e))
    return out


def render(case):
    return case['src']


# options first: everything after -e? is handed to the compiled program as its argv
ENGINES = [['-ei'], ['-O0', '-eg'], ['-O1', '-eg'], ['-O2', '-eg'], ['-O3', '-eg'], ['-el'], ['-eb']]


def run(cmd, cwd, timeout=60):
    try:
        r = subprocess.run(cmd, cwd=cwd, stdout=subprocess.PIPE, stderr=subprocess.PIPE, timeout=timeout,
                           env=dict(os.environ, ASAN_OPTIONS='detect_leaks=0:exitcode=99', UBSAN_OPTIONS='halt_on_error=1:exitcode=98'))
        return r.returncode, r.stdout.decode('latin-1'), r.stderr.decode('latin-1')
    except subprocess.TimeoutExpired:
        return -9, '', 'timeout'


def check(case, ctx):
    o = Outcome()
    for f in case['feats']:
        o.label(f)
    o.sample = case['src']
    os.makedirs(TMP, exist_ok=True)
    d = tempfile.mkdtemp(prefix='c07_', dir=TMP)
    try:
        open(d + '/p.c', 'w').write(case['src'])
        rc, out, err = run(['gcc', '-O0', '-w', '-std=gnu11', '-fsanitize=undefined,float-cast-overflow', '-fno-sanitize-recover=all', '-o', 'ub', 'p.c'], d)
        if rc != 0:
            return o.disc('gcc rejects the program: ' + (err.split('error:')[1].split('\n')[0].strip()[:60] if 'error:' in err else str(rc)))
        urc, uout, uerr = run(['./ub'], d)
        if 'runtime error' in uerr or urc == 98:
            m = re.search(r'runtime error: ([a-z ]+)', uerr)
            return o.disc('generated program has undefined behaviour (UBSan): ' + (m.group(1).strip()[:40] if m else '?'))
        rc, out, err = run(['gcc', '-O0', '-w', '-std=gnu11', '-o', 'r0', 'p.c'], d)
        r0 = run(['./r0'], d)
        rc, out, err = run(['gcc', '-O2', '-w', '-std=gnu11', '-o', 'r2', 'p.c'], d)
        r2 = run(['./r2'], d)
        if r0[:2] != r2[:2] or r0[:2] != (urc, uout):
            return o.disc('gcc -O0, gcc -O2 and the UBSan build disagree')
        o.nontrivial = bool(set(case['feats']) & {'mixed_signedness', 'mixed_rank', 'bitfield_store', 'struct_copy', 'struct_by_value', 'mixed_signedness_comparison'})
        bad = []
        first = None
        for eng in ENGINES:
            crc, cout, cerr = run([C2M, '-w'] + eng[:-1] + ['p.c', eng[-1]], d)
            if crc == -9:
                return o.disc('timeout of c2m (machine load): inconclusive')
            if 'AddressSanitizer' in cerr:
                m = re.search(r'ERROR: AddressSanitizer: (\S+)', cerr)
                fr = re.search(r'#\d+ 0x[0-9a-f]+ in (\w+) /repo', cerr)
                return o.fail('asan:%s:%s' % (m.group(1) if m else '?', fr.group(1) if fr else '?'), 'c2m %s:\n%s' % (' '.join(eng), cerr[:3000]))
            if (crc, cout) != r0[:2]:
                bad.append(''.join(eng))
                if first is None:
                    if not cout and crc != 0 and cerr.strip():
                        msg = re.sub(r'^[^:]*:\d+:\d+:\s*', '', cerr.strip().split('\n')[0])
                        first = ('c2m-fails:' + re.sub(r'[^A-Za-z]+', '_', msg)[:40], 'c2m %s exits with %d: %s' % (' '.join(eng), crc, cerr[:800]))
                    else:
                        first = ('output', 'c2m %s prints %s (exit %d), gcc prints %s (exit %d)' % (' '.join(eng), cout.strip()[:40], crc, r0[1].strip()[:40], r0[0]))
        if bad:
            scope = 'all-engines' if len(bad) == len(ENGINES) else 'interp-only' if bad == ['-ei'] else 'gen-only' if '-ei' not in bad else 'some'
            return o.fail('C07:%s:%s' % (scope, first[0]), first[1] + '\nengines that differ: ' + ' '.join(bad))
        return o
    finally:
        shutil.rmtree(d, ignore_errors=True)


if __name__ == '__main__':
    sys.exit(pyharness.main('C07', program, check, render))
