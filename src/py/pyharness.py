"""Hypothesis-side twin of src/common/runner.cc: same command line, same result files, so vlib/driver.py drives a
Python harness exactly like a C++ one.

  prog --pbt --out F [--tier T] [--exclude F1,F2] [--opt k=v]...   (env RC_PARAMS="seed=N max_success=M max_size=S")
  prog --replay FILE [--opt k=v]...                                -> "REPLAY verdict=PASS|FAIL fails=a/b sig=..."

A case is any JSON-serialisable object; the replay file stores it (hex of its JSON text in `bytes_hex`), so a
replay bypasses Hypothesis altogether. check(case, ctx) returns an Outcome. Every random choice is made by
Hypothesis strategies under @seed, database=None, deadline=None."""
import json, os, struct, sys, time, hashlib, traceback


class Outcome:
    def __init__(self):
        self.sig = None
        self.detail = ''
        self.discard = None
        self.labels = []
        self.nontrivial = False
        self.sample = ''

    def fail(self, sig, detail):
        if self.sig is None:
            self.sig, self.detail = sig, detail
        return self

    def disc(self, why):
        self.discard = why
        return self

    def label(self, l):
        if l not in self.labels:
            self.labels.append(l)


class Ctx:
    def __init__(self):
        self.opts = {}
        self.exclude = set()
        self.tier = 'quick'

    def excluded(self, fid):
        return fid in self.exclude


def _parse(argv):
    a = dict(mode=None, out=None, replay=None)
    ctx = Ctx()
    i = 1
    while i < len(argv):
        x = argv[i]
        if x in ('--pbt', '--enum'):
            a['mode'] = x[2:]
        elif x == '--out':
            i += 1; a['out'] = argv[i]
        elif x == '--tier':
            i += 1; ctx.tier = argv[i]
        elif x == '--exclude':
            i += 1; ctx.exclude = set(argv[i].split(','))
        elif x == '--opt':
            i += 1; k, _, v = argv[i].partition('='); ctx.opts[k] = v
        elif x in ('--replay', '--decode'):
            i += 1; a['mode'] = 'replay'; a['replay'] = argv[i]
        elif x == '--fork':
            pass
        i += 1
    return a, ctx


def case_hash(case):
    return struct.unpack('<Q', hashlib.sha256(json.dumps(case, sort_keys=True).encode()).digest()[:8])[0]


def main(prop, strategy, check, show):
    """strategy: Hypothesis strategy of cases (built with ctx via strategy(ctx)); check(case, ctx)->Outcome; show(case)->str"""
    a, ctx = _parse(sys.argv)
    if a['mode'] == 'replay':
        with open(a['replay']) as f:
            r = json.load(f)
        for k, v in (r.get('opts') or {}).items():
            ctx.opts.setdefault(k, v)
        case = json.loads(bytes.fromhex(r['bytes_hex']).decode())
        fails, sig, detail = 0, '', ''
        n = 1 if 'once' in ctx.opts else 3
        for _ in range(n):
            o = check(case, ctx)
            if o.sig is not None:
                fails += 1
                sig, detail = o.sig, o.detail
        verdict = 'FAIL' if fails == n else ('PASS' if fails == 0 else 'FLAKY')
        print('REPLAY verdict=%s fails=%d/%d sig=%s' % (verdict, fails, n, sig))
        print('CASE:\n' + show(case))
        if detail:
            print('DETAIL:\n' + detail)
        return 0
    # ---- pbt
    import hypothesis
    from hypothesis import given, settings, seed, HealthCheck, Phase
    rc = dict(kv.split('=') for kv in os.environ.get('RC_PARAMS', '').split() if '=' in kv)
    sd = int(rc.get('seed', '1')) or 1
    max_ex = int(rc.get('max_success', '100'))
    deadline = float(ctx.opts['deadline']) if 'deadline' in ctx.opts else None
    t0 = time.time()
    st = dict(evaluations=0, passed=0, fail=0, discarded=0, labels={}, discard_reasons={}, samples=[], hashes=set())
    best = dict(case=None, sig=None, detail=None, size=None)
    first = dict(sig=None)

    def write(done=True):
        res = dict(property=prop, evaluations=st['evaluations'], fail=st['fail'], discarded=st['discarded'],
                   distinct_nontrivial=len(st['hashes']), wall_s=round(time.time() - t0, 3), discard_reasons=st['discard_reasons'],
                   labels=st['labels'], samples=st['samples'][:4], done=done)
        res['pass'] = st['passed']
        if best['case'] is not None:
            txt = json.dumps(best['case'], sort_keys=True)
            res['failure'] = dict(sig=best['sig'], detail=best['detail'], case=show(best['case']), bytes_hex=txt.encode().hex())
        with open(a['out'], 'w') as f:
            json.dump(res, f)
        with open(a['out'] + '.hashes', 'wb') as f:
            hs = sorted(st['hashes'])
            f.write(struct.pack('<%dQ' % len(hs), *hs))

    class Found(Exception):
        pass

    @seed(sd)
    @settings(max_examples=max_ex, database=None, deadline=None, report_multiple_bugs=False, derandomize=False,
              suppress_health_check=list(HealthCheck), phases=[Phase.generate, Phase.shrink], print_blob=False)
    @given(strategy(ctx))
    def prop_test(case):
        now = time.time()
        if deadline is not None and now - t0 > deadline and best['case'] is None:
            return  # budget used up: remaining examples are no-ops (inconclusive, never a violation)
        if best['case'] is not None and deadline is not None and now - t0 > deadline + min(60.0, deadline):
            st['labels']['shrink_stopped_by_time_budget'] = 1
            write()
            os._exit(0)
        o = check(case, ctx)
        st['evaluations'] += 1
        for l in o.labels:
            st['labels'][l] = st['labels'].get(l, 0) + 1
        if o.discard is not None:
            st['discarded'] += 1
            st['discard_reasons'][o.discard] = st['discard_reasons'].get(o.discard, 0) + 1
            return
        if o.sig is None:
            st['passed'] += 1
            if o.nontrivial:
                st['hashes'].add(case_hash(case))
            if len(st['samples']) < 4 and o.nontrivial:
                st['samples'].append((o.sample or show(case))[:3000])
            return
        st['fail'] += 1
        size = len(json.dumps(case))
        if first['sig'] is None:
            first['sig'] = o.sig
        if o.sig == first['sig']:
            if best['size'] is None or size <= best['size']:
                best.update(case=case, sig=o.sig, detail=o.detail[:6000], size=size)
            raise Found(o.sig)
        # a different failure met while shrinking: not the one being minimised
        st['labels']['other_failure_during_shrink:' + o.sig] = st['labels'].get('other_failure_during_shrink:' + o.sig, 0) + 1

    try:
        prop_test()
    except Found:
        pass
    except hypothesis.errors.Flaky:
        st['labels']['hypothesis_flaky'] = 1
    except Exception:
        if best['case'] is None:
            traceback.print_exc()
            st['labels']['harness_exception'] = 1
    write()
    return 0
