// Choice stream: the single source of randomness for every harness.
// Smaller bytes / shorter streams => simpler cases; an exhausted stream yields 0.
#pragma once
#include <stdint.h>
#include <stddef.h>
#include <string>
#include <vector>
#include <initializer_list>

struct CS {
  const uint8_t *p;
  size_t n, i;
  CS (const uint8_t *p_, size_t n_) : p (p_), n (n_), i (0) {}
  explicit CS (const std::vector<uint8_t> &v) : p (v.data ()), n (v.size ()), i (0) {}
  bool exhausted () const { return i >= n; }
  size_t used () const { return i; }
  uint8_t byte () { return i < n ? p[i++] : 0; }
  // inclusive range; 1 byte when the span fits, else 2, 4 or 8 bytes
  uint64_t range (uint64_t lo, uint64_t hi) {
    if (hi <= lo) return lo;
    uint64_t span = hi - lo + 1;
    uint64_t v;
    if (span <= 256) {
      v = byte ();
    } else if (span <= 65536) {
      v = byte ();
      v |= (uint64_t) byte () << 8;
    } else if (span <= (1ull << 32)) {
      v = 0;
      for (int k = 0; k < 4; k++) v |= (uint64_t) byte () << (8 * k);
    } else {
      v = 0;
      for (int k = 0; k < 8; k++) v |= (uint64_t) byte () << (8 * k);
      if (span == 0) return v; /* full 64-bit range */
    }
    return lo + v % span;
  }
  int irange (int lo, int hi) { return (int) (int64_t) range (0, (uint64_t) (hi - lo)) + lo; }
  uint64_t u64 () {
    uint64_t v = 0;
    for (int k = 0; k < 8; k++) v |= (uint64_t) byte () << (8 * k);
    return v;
  }
  uint32_t u32 () {
    uint32_t v = 0;
    for (int k = 0; k < 4; k++) v |= (uint32_t) byte () << (8 * k);
    return v;
  }
  // true with probability ~ num/256; byte 0 => false (the simple choice)
  bool chance (int num) { return (256 - (int) byte ()) <= num; }
  bool flip () { return byte () & 1; }
  // index chosen by weights; index 0 is the "simplest"
  int weighted (std::initializer_list<int> w) {
    int tot = 0;
    for (int x : w) tot += x;
    if (tot <= 0) return 0;
    int r = (int) range (0, (uint64_t) tot - 1), k = 0;
    for (int x : w) {
      if (r < x) return k;
      r -= x;
      k++;
    }
    return 0;
  }
  int weightedv (const std::vector<int> &w) {
    int tot = 0;
    for (int x : w) tot += x;
    if (tot <= 0) return 0;
    int r = (int) range (0, (uint64_t) tot - 1), k = 0;
    for (int x : w) {
      if (r < x) return k;
      r -= x;
      k++;
    }
    return 0;
  }
};

static inline uint64_t fnv1a (const void *data, size_t len, uint64_t h = 1469598103934665603ull) {
  const uint8_t *d = (const uint8_t *) data;
  for (size_t k = 0; k < len; k++) {
    h ^= d[k];
    h *= 1099511628211ull;
  }
  return h;
}
static inline uint64_t fnv1a_s (const std::string &s, uint64_t h = 1469598103934665603ull) {
  return fnv1a (s.data (), s.size (), h);
}
