// Harness runner: fork isolation, outcome protocol, counters, evidence-fragment writer.
#pragma once
#include "cs.h"
#include <map>
#include <set>
#include <string>
#include <vector>
#include <functional>

enum Verdict { V_PASS = 0, V_FAIL = 1, V_DISCARD = 2 };

struct Outcome {
  Verdict v = V_PASS;
  std::string sig;      // root-cause fingerprint of a failure
  std::string detail;   // human readable explanation of a failure
  std::string discard;  // reason when discarded
  std::string sample;   // decoded human-readable case
  std::vector<std::string> labels;
  bool nontrivial = false;
  uint64_t hash = 0;    // hash of decoded case (distinctness)
  void fail (const std::string &s, const std::string &d) {
    if (v == V_FAIL) return; /* first failure wins */
    v = V_FAIL;
    sig = s;
    detail = d;
  }
  void disc (const std::string &why) {
    if (v == V_FAIL) return;
    v = V_DISCARD;
    discard = why;
  }
  void label (const std::string &l) { labels.push_back (l); }
  // Make sample/labels known to the parent *before* running code that may crash the child.
  void publish ();
};

typedef void (*CaseFn) (CS &cs, Outcome &o);

struct HarnessCfg {
  const char *property;   // "C12"
  CaseFn fn;
  bool fork_per_case;     // run each case in a forked child
  int timeout_s;          // per-case alarm in the child; expiry => discard (inconclusive)
  bool timeout_is_failure;  // only for termination clauses (C10 writer / C20 translator)
  int len_scale;          // stream length = rapidcheck size * len_scale
  // optional: exhaustive enumeration part; returns number of cases run through run_one
  void (*enumerate) (int tier) = nullptr;
  // optional global init (before any case, in parent)
  void (*init) () = nullptr;
};

// Run one case under the configured isolation; updates counters. Returns the outcome.
Outcome run_one (const std::vector<uint8_t> &bytes);
// run f in a forked child (always), without touching counters: used by structure-level reducers
Outcome run_isolated (const std::function<void (Outcome &)> &f);
// for enumerate(): cases that do not come from a byte stream go through this with a closure
Outcome run_closure (const std::function<void (Outcome &)> &f);

int harness_main (int argc, char **argv, const HarnessCfg &cfg);

// options visible to harnesses
bool known_excluded (const char *finding_id);  // --exclude F7,F12
int harness_tier ();                           // 0 quick, 1 thorough
const char *harness_opt (const char *name);    // --opt name=value

// helpers
std::string hexs (const void *p, size_t n);
std::string strfmt (const char *fmt, ...) __attribute__ ((format (printf, 1, 2)));

// provided by rcglue.cc
int pbt_run (const char *name, int len_scale,
             const std::function<bool (const std::vector<uint8_t> &)> &prop);
