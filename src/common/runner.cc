#include "runner.h"
#include <stdarg.h>
#include <stdio.h>
#include <stdlib.h>
#include <string.h>
#include <unistd.h>
#include <signal.h>
#include <errno.h>
#include <time.h>
#include <sys/wait.h>
#include <sys/mman.h>
#include <sys/resource.h>
#include <fcntl.h>
#include <algorithm>

static HarnessCfg g_cfg;
static bool g_fork = false;
static int g_tier = 0;
static std::set<std::string> g_excluded;
static std::map<std::string, std::string> g_opts;
static std::string g_out;

// counters
static uint64_t n_eval = 0, n_pass = 0, n_fail = 0, n_disc = 0;
static std::map<std::string, uint64_t> disc_reasons, label_counts;
static std::set<uint64_t> nontrivial_hashes;
static std::vector<std::string> samples;
static std::set<std::string> sample_labelsets;
static bool have_failure = false;
static std::vector<uint8_t> fail_bytes;
static Outcome fail_outcome;
static bool g_counting = true;

bool known_excluded (const char *id) { return g_excluded.count (id) != 0; }
int harness_tier () { return g_tier; }
const char *harness_opt (const char *name) {
  auto it = g_opts.find (name);
  return it == g_opts.end () ? nullptr : it->second.c_str ();
}

std::string hexs (const void *p, size_t n) {
  static const char *d = "0123456789abcdef";
  std::string s;
  s.reserve (n * 2);
  for (size_t i = 0; i < n; i++) {
    s.push_back (d[((const uint8_t *) p)[i] >> 4]);
    s.push_back (d[((const uint8_t *) p)[i] & 15]);
  }
  return s;
}
std::string strfmt (const char *fmt, ...) {
  char buf[4096];
  va_list ap;
  va_start (ap, fmt);
  vsnprintf (buf, sizeof (buf), fmt, ap);
  va_end (ap);
  return buf;
}

static std::string jesc (const std::string &s) {
  std::string r;
  for (unsigned char c : s) {
    if (c == '"') r += "\\\"";
    else if (c == '\\') r += "\\\\";
    else if (c == '\n') r += "\\n";
    else if (c == '\t') r += "\\t";
    else if (c < 0x20 || c >= 0x7f) r += strfmt ("\\u%04x", c);
    else r.push_back ((char) c);
  }
  return r;
}

// ---- outcome (de)serialisation over a pipe ----
static void put_str (std::string &b, const std::string &s) {
  uint32_t n = (uint32_t) s.size ();
  b.append ((const char *) &n, 4);
  b.append (s);
}
static bool get_str (const std::string &b, size_t &pos, std::string &s) {
  if (pos + 4 > b.size ()) return false;
  uint32_t n;
  memcpy (&n, b.data () + pos, 4);
  pos += 4;
  if (pos + n > b.size ()) return false;
  s.assign (b.data () + pos, n);
  pos += n;
  return true;
}
static std::string ser (const Outcome &o) {
  std::string b;
  b.push_back ((char) o.v);
  b.push_back ((char) o.nontrivial);
  b.append ((const char *) &o.hash, 8);
  put_str (b, o.sig);
  put_str (b, o.detail);
  put_str (b, o.discard);
  put_str (b, o.sample);
  uint32_t nl = (uint32_t) o.labels.size ();
  b.append ((const char *) &nl, 4);
  for (auto &l : o.labels) put_str (b, l);
  b.append ("END!", 4);
  return b;
}
static bool deser (const std::string &b, Outcome &o) {
  if (b.size () < 14) return false;
  size_t pos = 0;
  o.v = (Verdict) b[pos++];
  o.nontrivial = b[pos++];
  memcpy (&o.hash, b.data () + pos, 8);
  pos += 8;
  if (!get_str (b, pos, o.sig) || !get_str (b, pos, o.detail) || !get_str (b, pos, o.discard)
      || !get_str (b, pos, o.sample))
    return false;
  if (pos + 4 > b.size ()) return false;
  uint32_t nl;
  memcpy (&nl, b.data () + pos, 4);
  pos += 4;
  o.labels.clear ();
  for (uint32_t i = 0; i < nl; i++) {
    std::string l;
    if (!get_str (b, pos, l)) return false;
    o.labels.push_back (l);
  }
  return pos + 4 <= b.size () && memcmp (b.data () + pos, "END!", 4) == 0;
}

static int g_child_pipe = -1;
static void write_record (int fd, const Outcome &o) {
  std::string b = ser (o);
  uint32_t n = (uint32_t) b.size ();
  std::string rec ((const char *) &n, 4);
  rec += b;
  size_t off = 0;
  while (off < rec.size ()) {
    ssize_t w = write (fd, rec.data () + off, rec.size () - off);
    if (w <= 0) break;
    off += (size_t) w;
  }
}
void Outcome::publish () {
  if (g_child_pipe >= 0) write_record (g_child_pipe, *this);
}

static std::string read_all (int fd) {
  std::string s;
  char buf[65536];
  for (;;) {
    ssize_t r = read (fd, buf, sizeof (buf));
    if (r > 0) s.append (buf, (size_t) r);
    else if (r < 0 && errno == EINTR) continue;
    else break;
  }
  return s;
}

// fingerprint of a sanitizer / crash report on stderr
static std::string crash_sig (const std::string &err, int status) {
  std::string kind, func;
  size_t p = err.find ("ERROR: AddressSanitizer: ");
  if (p == std::string::npos) p = err.find ("ERROR: LeakSanitizer: ");
  if (p != std::string::npos) {
    size_t q = err.find (": ", p + 7) + 2;
    size_t e = err.find_first_of (" \n", q);
    kind = "asan:" + err.substr (q, e - q);
  } else if ((p = err.find ("WARNING: ThreadSanitizer: ")) != std::string::npos) {
    // signature = kind + the top non-runtime frames of the two accesses (root cause: the racing source lines)
    size_t e = err.find_first_of ("(\n", p + 26);
    std::string k = err.substr (p + 26, e - (p + 26));
    while (!k.empty () && k.back () == ' ') k.pop_back ();
    std::vector<std::string> tops;
    size_t q = p;
    for (int acc = 0; acc < 2; acc++) {
      size_t h = err.find ("#0 ", q);
      if (h == std::string::npos) break;
      size_t le = err.find ('\n', h);
      std::string line = err.substr (h + 3, le - h - 3);
      // "func file:line:col (binary+0x..)"
      size_t sp = line.find (' ');
      std::string fn = line.substr (0, sp), rest = sp == std::string::npos ? "" : line.substr (sp + 1);
      size_t sp2 = rest.find (' ');
      std::string loc = rest.substr (0, sp2);
      size_t sl = loc.rfind ('/');
      if (sl != std::string::npos) loc = loc.substr (sl + 1);
      tops.push_back (fn + "@" + loc);
      q = err.find ("Previous ", le);
      if (q == std::string::npos) break;
    }
    std::sort (tops.begin (), tops.end ());
    kind = "tsan:" + k;
    for (auto &t : tops) kind += ":" + t;
    return kind;
  } else if ((p = err.find ("runtime error: ")) != std::string::npos) {
    size_t e = err.find ('\n', p);
    std::string msg = err.substr (p + 15, e - p - 15);
    // strip numbers to keep it stable
    std::string m2;
    for (char c : msg) m2.push_back ((c >= '0' && c <= '9') ? '#' : c);
    kind = "ubsan:" + m2.substr (0, 60);
  } else if ((p = err.find ("Assertion `")) != std::string::npos) {
    size_t e = err.find ('\'', p + 11);
    kind = "assert:" + err.substr (p + 11, e - p - 11);
  } else if (WIFSIGNALED (status)) {
    kind = strfmt ("signal:%d", WTERMSIG (status));
  } else {
    kind = strfmt ("exit:%d", WEXITSTATUS (status));
  }
  // first frame that is not a sanitizer interceptor
  size_t pos = 0;
  while ((pos = err.find (" in ", pos)) != std::string::npos) {
    size_t ls = err.rfind ('\n', pos);
    ls = (ls == std::string::npos) ? 0 : ls + 1;
    size_t hash = err.find ('#', ls);
    pos += 4;
    if (hash == std::string::npos || hash > pos) continue;
    size_t e = err.find_first_of (" \n(", pos);
    std::string f = err.substr (pos, e - pos);
    if (f.find ("__interceptor") == 0 || f.find ("__asan") == 0 || f.find ("__sanitizer") == 0
        || f.find ("__ubsan") == 0 || f == "memcpy" || f == "memmove" || f == "memset"
        || f == "malloc" || f == "free" || f == "realloc" || f == "calloc" || f == "raise"
        || f == "abort" || f == "__assert_fail" || f == "__assert_fail_base" || f == "gsignal"
        || f == "__pthread_kill_implementation" || f == "strlen" || f == "printf_common"
        || f.find ("__GI_") == 0)
      continue;
    func = f;
    break;
  }
  if (!func.empty ()) kind += ":" + func;
  return kind;
}

static std::string tail (const std::string &s, size_t n) {
  return s.size () <= n ? s : s.substr (s.size () - n);
}
static std::string head (const std::string &s, size_t n) {
  return s.size () <= n ? s : s.substr (0, n);
}

static Outcome run_forked (const std::function<void (Outcome &)> &f, int timeout_s = -1) {
  if (timeout_s < 0) timeout_s = g_cfg.timeout_s;
  int pfd[2];
  if (pipe (pfd) != 0) {
    perror ("pipe");
    exit (3);
  }
  int efd = memfd_create ("stderr", 0);
  fflush (stdout);
  fflush (stderr);
  pid_t pid = fork ();
  if (pid < 0) {
    perror ("fork");
    exit (3);
  }
  if (pid == 0) {
    close (pfd[0]);
    if (efd >= 0) {
      dup2 (efd, 2);
    }
    int nul = open ("/dev/null", O_WRONLY);
    if (nul >= 0) dup2 (nul, 1);
    struct rlimit rl = {0, 0};
    setrlimit (RLIMIT_CORE, &rl);
    signal (SIGALRM, SIG_DFL);
    if (timeout_s > 0) alarm ((unsigned) timeout_s);
    Outcome o;
    g_child_pipe = pfd[1];
    f (o);
    o.labels.push_back ("\x01final");
    write_record (pfd[1], o);
    _exit (0);
  }
  close (pfd[1]);
  std::string ob = read_all (pfd[0]);
  close (pfd[0]);
  int status = 0;
  while (waitpid (pid, &status, 0) < 0 && errno == EINTR) {}
  std::string err;
  if (efd >= 0) {
    lseek (efd, 0, SEEK_SET);
    err = read_all (efd);
    close (efd);
  }
  Outcome o;
  bool ok = false, final = false;
  {  // last complete record wins
    size_t pos = 0;
    while (pos + 4 <= ob.size ()) {
      uint32_t n;
      memcpy (&n, ob.data () + pos, 4);
      if (pos + 4 + n > ob.size ()) break;
      Outcome t;
      if (deser (ob.substr (pos + 4, n), t)) {
        o = t;
        ok = true;
      }
      pos += 4 + n;
    }
    if (ok && !o.labels.empty () && o.labels.back () == "\x01final") {
      final = true;
      o.labels.pop_back ();
    }
  }
  if (ok && final && WIFEXITED (status) && WEXITSTATUS (status) == 0) return o;
  Outcome r;
  if (ok) {  // outcome written but child died afterwards: keep labels
    r.labels = o.labels;
    r.sample = o.sample;
    r.hash = o.hash;
    r.nontrivial = o.nontrivial;
  }
  if (WIFSIGNALED (status) && WTERMSIG (status) == SIGALRM) {
    if (g_cfg.timeout_is_failure)
      r.fail ("timeout", strfmt ("did not terminate within bound (%d s)", g_cfg.timeout_s));
    else
      r.disc ("timeout");
    return r;
  }
  if (WIFSIGNALED (status) && WTERMSIG (status) == SIGKILL) {
    r.disc ("killed");
    return r;
  }
  std::string sig = crash_sig (err, status);
  r.fail (sig, "child died: " + sig + "\n--- stderr (head) ---\n" + head (err, 3000));
  return r;
}

static std::string first_sig;
// Record a failure. While shrinking, a candidate that fails with a *different* signature is
// not allowed to replace the original root cause (no shrink slippage): returns false then.
static bool record_failure (const std::vector<uint8_t> *bytes, const Outcome &o) {
  if (have_failure && o.sig != first_sig) return false;
  if (have_failure && !bytes) return true; /* enumerations keep their first failure */
  have_failure = true;
  first_sig = o.sig;
  if (bytes) fail_bytes = *bytes;
  else fail_bytes.clear ();
  fail_outcome = o;
  return true;
}

static void count (const std::vector<uint8_t> *bytes, const Outcome &o) {
  (void) bytes;
  if (!g_counting) return;
  n_eval++;
  if (o.v == V_PASS) n_pass++;
  else if (o.v == V_FAIL) n_fail++;
  else {
    n_disc++;
    disc_reasons[o.discard]++;
  }
  if (o.v == V_DISCARD) return;
  std::string ls;
  for (auto &l : o.labels) {
    label_counts[l]++;
    ls += l + ",";
  }
  if (o.nontrivial) {
    bool fresh = nontrivial_hashes.insert (o.hash).second;
    if (fresh && !o.sample.empty ()) {
      if (samples.size () < 4) {
        samples.push_back (o.sample);
        sample_labelsets.insert (ls);
      } else if (samples.size () < 10 && sample_labelsets.insert (ls).second) {
        samples.push_back (o.sample);
      }
    }
  }
}

Outcome run_one (const std::vector<uint8_t> &bytes) {
  Outcome o;
  if (g_fork) {
    o = run_forked ([&] (Outcome &oo) {
      CS cs (bytes);
      g_cfg.fn (cs, oo);
    });
  } else {
    CS cs (bytes);
    g_cfg.fn (cs, o);
  }
  count (&bytes, o);
  if (o.v == V_FAIL && !record_failure (&bytes, o)) {
    o.v = V_PASS; /* other root cause met while shrinking: ignored for this campaign */
    label_counts["other_failure_during_shrink:" + o.sig]++;
  }
  return o;
}

Outcome run_isolated (const std::function<void (Outcome &)> &f) {
  int saved = g_child_pipe;
  g_child_pipe = -1;
  Outcome o = run_forked (f, 10);
  g_child_pipe = saved;
  return o;
}

Outcome run_closure (const std::function<void (Outcome &)> &f) {
  Outcome o;
  if (g_fork) o = run_forked (f);
  else f (o);
  count (nullptr, o);
  if (o.v == V_FAIL) record_failure (nullptr, o);
  return o;
}

static void write_result (double wall) {
  if (g_out.empty ()) return;
  FILE *f = fopen (g_out.c_str (), "w");
  if (!f) {
    perror (g_out.c_str ());
    return;
  }
  fprintf (f, "{\n \"property\": \"%s\",\n \"evaluations\": %llu,\n \"pass\": %llu,\n \"fail\": %llu,\n \"discarded\": %llu,\n",
           g_cfg.property, (unsigned long long) n_eval, (unsigned long long) n_pass,
           (unsigned long long) n_fail, (unsigned long long) n_disc);
  fprintf (f, " \"distinct_nontrivial\": %llu,\n", (unsigned long long) nontrivial_hashes.size ());
  fprintf (f, " \"wall_s\": %.3f,\n", wall);
  fprintf (f, " \"discard_reasons\": {");
  bool first = true;
  for (auto &kv : disc_reasons) {
    fprintf (f, "%s\"%s\": %llu", first ? "" : ", ", jesc (kv.first).c_str (), (unsigned long long) kv.second);
    first = false;
  }
  fprintf (f, "},\n \"labels\": {");
  first = true;
  for (auto &kv : label_counts) {
    fprintf (f, "%s\"%s\": %llu", first ? "" : ", ", jesc (kv.first).c_str (), (unsigned long long) kv.second);
    first = false;
  }
  fprintf (f, "},\n \"samples\": [");
  first = true;
  for (auto &s : samples) {
    fprintf (f, "%s\"%s\"", first ? "" : ",\n  ", jesc (head (s, 6000)).c_str ());
    first = false;
  }
  fprintf (f, "],\n");
  if (have_failure) {
    fprintf (f, " \"failure\": {\"bytes_hex\": \"%s\", \"sig\": \"%s\", \"detail\": \"%s\", \"case\": \"%s\"},\n",
             hexs (fail_bytes.data (), fail_bytes.size ()).c_str (), jesc (fail_outcome.sig).c_str (),
             jesc (head (fail_outcome.detail, 8000)).c_str (), jesc (head (fail_outcome.sample, 8000)).c_str ());
  }
  fprintf (f, " \"done\": true\n}\n");
  fclose (f);
  // hashes for cross-worker distinct counting
  std::string hf = g_out + ".hashes";
  f = fopen (hf.c_str (), "wb");
  if (f) {
    for (uint64_t h : nontrivial_hashes) fwrite (&h, 8, 1, f);
    fclose (f);
  }
}

static bool parse_hex_field (const std::string &txt, const char *key, std::vector<uint8_t> &out) {
  std::string k = std::string ("\"") + key + "\"";
  size_t p = txt.find (k);
  if (p == std::string::npos) return false;
  p = txt.find ('"', txt.find (':', p + k.size ()));
  if (p == std::string::npos) return false;
  size_t e = txt.find ('"', p + 1);
  if (e == std::string::npos) return false;
  out.clear ();
  for (size_t i = p + 1; i + 1 < e; i += 2) {
    unsigned v;
    if (sscanf (txt.c_str () + i, "%2x", &v) != 1) return false;
    out.push_back ((uint8_t) v);
  }
  return true;
}

static double now_s () {
  struct timespec ts;
  clock_gettime (CLOCK_MONOTONIC, &ts);
  return (double) ts.tv_sec + ts.tv_nsec * 1e-9;
}

int harness_main (int argc, char **argv, const HarnessCfg &cfg) {
  g_cfg = cfg;
  g_fork = cfg.fork_per_case;
  enum { M_PBT, M_REPLAY, M_ENUM, M_DECODE } mode = M_PBT;
  std::string replay;
  for (int i = 1; i < argc; i++) {
    std::string a = argv[i];
    if (a == "--pbt") mode = M_PBT;
    else if (a == "--enum") mode = M_ENUM;
    else if (a == "--replay" && i + 1 < argc) {
      mode = M_REPLAY;
      replay = argv[++i];
    } else if (a == "--decode" && i + 1 < argc) {
      mode = M_DECODE;
      replay = argv[++i];
    } else if (a == "--out" && i + 1 < argc) g_out = argv[++i];
    else if (a == "--fork") g_fork = true;
    else if (a == "--nofork") g_fork = false;
    else if (a == "--tier" && i + 1 < argc) g_tier = !strcmp (argv[++i], "thorough");
    else if (a == "--exclude" && i + 1 < argc) {
      std::string s = argv[++i];
      size_t p = 0;
      while (p <= s.size ()) {
        size_t e = s.find (',', p);
        if (e == std::string::npos) e = s.size ();
        if (e > p) g_excluded.insert (s.substr (p, e - p));
        p = e + 1;
      }
    } else if (a == "--opt" && i + 1 < argc) {
      std::string s = argv[++i];
      size_t e = s.find ('=');
      if (e != std::string::npos) g_opts[s.substr (0, e)] = s.substr (e + 1);
      else g_opts[s] = "1";
    } else {
      fprintf (stderr, "unknown arg %s\n", a.c_str ());
      return 3;
    }
  }
  signal (SIGPIPE, SIG_IGN);
  if (const char *t = harness_opt ("timeout")) g_cfg.timeout_s = atoi (t);
  if (harness_opt ("reduce") && !harness_opt ("timeout")) g_cfg.timeout_s = 1800;
  if (cfg.init) cfg.init ();
  double t0 = now_s ();
  if (mode == M_REPLAY || mode == M_DECODE) {
    FILE *f = fopen (replay.c_str (), "r");
    if (!f) {
      perror (replay.c_str ());
      return 3;
    }
    std::string txt = read_all (fileno (f));
    fclose (f);
    std::vector<uint8_t> bytes;
    if (!parse_hex_field (txt, "bytes_hex", bytes)) {
      fprintf (stderr, "no bytes_hex in %s\n", replay.c_str ());
      return 3;
    }
    g_fork = getenv ("VERIF_NOFORK") == NULL; /* triage under gdb: run the case in-process */
    int nfail = 0, ndisc = 0, reps = mode == M_DECODE ? 1 : 3;
    Outcome last;
    for (int k = 0; k < reps; k++) {
      Outcome o = run_one (bytes);
      if (o.v == V_FAIL) {
        nfail++;
        last = o;
      } else if (o.v == V_DISCARD) {
        ndisc++;
        if (nfail == 0) last = o;
      } else if (nfail == 0 && ndisc == 0)
        last = o;
    }
    const char *vs = nfail == reps ? "FAIL" : nfail > 0 ? "FLAKY" : ndisc > 0 ? "DISCARD" : "PASS";
    printf ("REPLAY verdict=%s fails=%d/%d sig=%s\n", vs, nfail, reps, last.sig.c_str ());
    if (!last.sample.empty ()) printf ("CASE:\n%s\n", last.sample.c_str ());
    if (!last.detail.empty ()) printf ("DETAIL:\n%s\n", last.detail.c_str ());
    if (!last.discard.empty ()) printf ("DISCARD: %s\n", last.discard.c_str ());
    return nfail == reps ? 1 : nfail > 0 ? 4 : ndisc > 0 ? 2 : 0;
  }
  int rc = 0;
  if (mode == M_ENUM) {
    if (cfg.enumerate) cfg.enumerate (g_tier);
    rc = have_failure ? 1 : 0;
  } else {
    double deadline = 0;
    if (const char *d = harness_opt ("deadline")) deadline = t0 + atof (d);
    rc = pbt_run (cfg.property, cfg.len_scale, [deadline, t0] (const std::vector<uint8_t> &b) {
      // shrinking gets half of the budget again, then the current (smaller) case is kept
      if (deadline > 0 && have_failure && now_s () > deadline + (deadline - t0) / 2 + 20) {
        // shrinking budget used up: keep the current (smaller) failing case. rapidcheck would still walk every
        // remaining shrink candidate of a multi-KB vector, which takes minutes under ASan, so finish here.
        label_counts["shrink_stopped_by_time_budget"]++;
        write_result (now_s () - t0);
        fflush (NULL);
        _exit (1);
      }
      if (deadline > 0 && !have_failure && now_s () > deadline) {
        label_counts["skipped_after_time_budget"]++; /* budget hit: explored less, never a verdict */
        return true;
      }
      Outcome o = run_one (b);
      return o.v != V_FAIL;
    });
    // pbt_run leaves the minimal failing case as the last recorded failure
  }
  write_result (now_s () - t0);
  return rc;
}
