// rapidcheck glue: the only TU that includes rapidcheck (slow to compile, built once).
#include <rapidcheck.h>
#include <functional>
#include <vector>
#include <stdint.h>

int pbt_run (const char *name, int len_scale,
             const std::function<bool (const std::vector<uint8_t> &)> &prop) {
  // bytes drawn uniformly (not size-scaled: inRange collapses at small sizes otherwise);
  // stream length scales with rapidcheck's size * len_scale. The stock vector shrinker
  // (drop chunks, shrink elements toward 0) is the shrinker for every harness.
  auto byteGen = rc::gen::resize (100, rc::gen::cast<uint8_t> (rc::gen::inRange<int> (0, 256)));
  auto vecGen = rc::gen::scale ((double) len_scale, rc::gen::container<std::vector<uint8_t>> (byteGen));
  bool ok = rc::check (name, [&] () {
    std::vector<uint8_t> bytes = *vecGen;
    RC_ASSERT (prop (bytes));
  });
  return ok ? 0 : 1;
}
