/* triage tool: mirrun <file.mir> <engine: i|0|1|2|3|l|b> depth a0 a1 x0 [bufhex] [-d] : runs entry(depth,a0,a1,x0,buf) */
#include <stdio.h>
#include <stdlib.h>
#include <string.h>
#include <sys/mman.h>
#include "mir.h"
#include "mir-gen.h"
typedef struct { int64_t i; double d; } ret_t;
static int64_t ext_ii (int64_t a, int64_t b) { printf ("  ext_ii(%ld,%ld)\n", a, b); return (int64_t) ((uint64_t) a * 3 + ((uint64_t) b ^ 0x55)); }
static double ext_d (double x, int64_t n) { fprintf (stderr, "ext_d(%a, %ld)\n", x, (long) n); return x * 0.5 + (double) (n & 0xffff); }
int main (int argc, char **argv) {
  FILE *f = fopen (argv[1], "r");
  static char text[1 << 20];
  size_t n = fread (text, 1, sizeof (text) - 1, f);
  text[n] = 0;
  for (const char *ep = argv[2]; *ep; ep++) {
  char e = *ep;
  int64_t depth = atoll (argv[3]), a0 = strtoll (argv[4], 0, 0), a1 = strtoll (argv[5], 0, 0);
  double x0 = atof (argv[6]);
  unsigned char *page = mmap ((void *) 0x20000000, 4096, PROT_READ | PROT_WRITE, MAP_PRIVATE | MAP_ANONYMOUS | MAP_FIXED, -1, 0);
  unsigned char *buf = page + 0xf00;
  if (argc > 7 && argv[7][0] != '-')
    for (int i = 0; i < 256 && argv[7][2 * i]; i++) { unsigned v; sscanf (argv[7] + 2 * i, "%2x", &v); buf[i] = v; }
  int dbg = argc > 7 && strcmp (argv[argc - 1], "-d") == 0;
  unsigned char saved[256]; static int first = 1; if (first) { memcpy (saved, buf, 256); first = 0; }
  MIR_context_t ctx = MIR_init ();
  MIR_scan_string (ctx, text);
  MIR_item_t entry = NULL;
  for (MIR_module_t m = DLIST_HEAD (MIR_module_t, *MIR_get_module_list (ctx)); m; m = DLIST_NEXT (MIR_module_t, m)) {
    MIR_load_module (ctx, m);
    for (MIR_item_t it = DLIST_HEAD (MIR_item_t, m->items); it; it = DLIST_NEXT (MIR_item_t, it))
      if (it->item_type == MIR_func_item && !strcmp (it->u.func->name, "entry")) entry = it;
  }
  MIR_load_external (ctx, "ext_ii", ext_ii);
  MIR_load_external (ctx, "ext_d", ext_d);
  if (e == 'i') {
    MIR_link (ctx, MIR_set_interp_interface, NULL);
    MIR_val_t res[4], args[5];
    args[0].i = depth; args[1].i = a0; args[2].i = a1; args[3].d = x0; args[4].a = buf;
    MIR_interp_arr (ctx, entry, res, 5, args);
    printf ("interp: %ld (0x%lx) %a\n", res[0].i, res[0].i, res[1].d);
  } else {
    MIR_gen_init (ctx);
    if (dbg) { MIR_gen_set_debug_file (ctx, stderr); MIR_gen_set_debug_level (ctx, 2); }
    MIR_gen_set_optimize_level (ctx, e == 'l' || e == 'b' ? 2 : e - '0');
    MIR_link (ctx, e == 'l' ? MIR_set_lazy_gen_interface : e == 'b' ? MIR_set_lazy_bb_gen_interface : MIR_set_gen_interface, NULL);
    ret_t r = ((ret_t (*) (int64_t, int64_t, int64_t, double, void *)) entry->addr) (depth, a0, a1, x0, buf);
    printf ("gen-%c: %ld (0x%lx) %a\n", e, r.i, r.i, r.d);
    MIR_gen_finish (ctx);
  }
  printf ("buf: ");
  for (int i = 0; i < 256; i++) printf ("%02x", buf[i]);
  printf ("\n");
  MIR_finish (ctx);
  }
  return 0;
}
