#!/bin/bash
# usage: try.sh <Cxx> <seed> <max_success> [extra args]  -- build and run one worker, print summary
pid=$1; seed=$2; n=$3; shift 3
cd /verif && python3 -c "
from vlib import props
b=props.SPECS['$pid'].build(); print(b)" >/dev/null || exit 1
bin=$(python3 -c "
from vlib import props
b=props.SPECS['$pid'].build(); print(list(b.values())[0])")
mkdir -p build/t
ASAN_OPTIONS=detect_leaks=0:exitcode=99:allocator_may_return_null=1 RC_PARAMS="seed=$seed max_success=$n max_size=100" timeout 900 $bin --pbt --out build/t/$pid.json "$@" > build/t/$pid.log 2>&1
python3 - <<PY
import json
d=json.load(open('/verif/build/t/$pid.json'))
print({k:d[k] for k in ('evaluations','pass','fail','discarded','distinct_nontrivial','wall_s','discard_reasons')})
print(d['labels'])
if 'failure' in d:
    print('SIG', d['failure']['sig']); print(d['failure']['detail'][:2500]); print('CASE'); print(d['failure']['case'][:5000])
PY
