#!/usr/bin/env python3
"""manifest_add.py <pid> <technique> <level_text> <level_note> : add/replace a check entry, keep not_applicable current"""
import json, sys
pid, technique, text, note = sys.argv[1:5]
p = '/verif/MANIFEST.json'
m = json.load(open(p))
m['checks'] = [c for c in m['checks'] if c['property_id'] != pid]
m['checks'].append({
    "property_id": pid, "quick_cmd": "./check %s --tier quick" % pid, "thorough_cmd": "./check %s --tier thorough" % pid,
    "evidence_file": "evidence/%s.json" % pid, "replay_cmd_template": "./check %s --replay {path}" % pid,
    "engine": "rapidcheck + choice-stream harnesses", "technique": technique,
    "level_claimed": {"category": "exploration", "design_ref": "DESIGN.md §4 %s" % pid, "text": text},
    "level_note": note})
m['checks'].sort(key=lambda c: c['property_id'])
PY = {'C07', 'C08', 'C09'}
m['engines'] = [e for e in m['engines'] if e.get('path') != 'src/py']
m['engines'][0]['serves_properties'] = [c['property_id'] for c in m['checks'] if c['property_id'] not in PY]
pyp = [c['property_id'] for c in m['checks'] if c['property_id'] in PY]
if pyp:
    m['engines'].append({'name': 'hypothesis harnesses', 'path': 'src/py', 'serves_properties': pyp,
                         'kind_free_text': 'property-based testing: Hypothesis (tooling venv, python3-vt) generates and shrinks C translation units; '
                                           'src/py/pyharness.py speaks the same worker protocol as the C++ runner; c2m built from the working tree '
                                           'with ASan is run as a subprocess, gcc is the reference'})
for c in m['checks']:
    if c['property_id'] in PY:
        c['engine'] = 'hypothesis harnesses'
claimed = {c['property_id'] for c in m['checks']}
m['not_applicable'] = [x for x in m['not_applicable'] if x['property_id'] not in claimed]
json.dump(m, open(p, 'w'), indent=1)
print('claimed:', sorted(claimed))
