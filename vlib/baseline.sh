#!/bin/bash
# builds /repo HEAD (committed state) in a scratch worktree with the reference configuration and runs the 45 pinned tests
set -u
wt=/var/tmp/mirscratch.baseline.$$
git -C /repo worktree add -q --detach $wt HEAD || exit 9
cmake -G Ninja -S $wt -B $wt/_build -DCMAKE_BUILD_TYPE=RelWithDebInfo > /dev/null 2>&1
cmake --build $wt/_build -- -k 0 > $wt.build.log 2>&1
ctest --test-dir $wt/_build -j8 --timeout 900 > $wt.ctest.log 2>&1
echo "baseline at $(git -C /repo rev-parse --short HEAD): $(grep -E 'tests passed|tests failed' $wt.ctest.log)"
grep -E "Failed|\*\*\*" $wt.ctest.log | head
git -C /repo worktree remove --force $wt
rm -f $wt.build.log $wt.ctest.log
