#!/usr/bin/env python3
"""Print the prompt given to an independent seeding sub-agent for one property (nothing from /verif)."""
import json, sys
pid = sys.argv[1]
for l in open('/verif/properties.jsonl'):
    p = json.loads(l)
    if p['id'] == pid:
        break
print(f"""You are helping to evaluate how sensitive a verification effort is. You get a scratch git worktree of the
open-source project vnmakarov/mir (a lightweight JIT compiler: MIR IR, interpreter, x86-64 code generator, C11->MIR
compiler c2mir, MIR->C translator) at /tmp/seed/{pid}. Work ONLY inside /tmp/seed/{pid} and /tmp/seed/{pid}-out.
Do NOT read or touch /repo or /verif (they are off limits; your work must be independent of them).

The project is supposed to satisfy this semantic property:

  PROPERTY {pid}: {p['title']}
  {p['statement']}
  (Quantified over: {p['quantifier']['text']})

Your task: produce TWO different, independent, realistic source changes ("seeded defects") to the project, each of which
 (a) BREAKS the property above,
 (b) still compiles without new warnings-as-errors, and
 (c) still passes the project's existing test suite, and
 (d) needs something SPECIFIC to manifest - a particular multi-step sequence of operations, an unusual input or boundary
     value, a particular operand form/size, a rarely taken path, or two cooperating sites that each look fine alone -
     NOT something that ordinary use would expose at once. Think of the kind of slip a maintainer could plausibly make
     in a refactoring or optimisation: an off-by-one at a boundary, a wrong signedness for one opcode, a dropped case, a
     missing update of a flag or counter, a stale cached value, a wrong register class, etc.
The two changes should be in different places / of different nature.

How to build and test (takes a few minutes; use a build dir inside your worktree):
  cd /tmp/seed/{pid} && cmake -G Ninja -B _build -DCMAKE_BUILD_TYPE=RelWithDebInfo >/dev/null && cmake --build _build -- -k 0 2>&1 | tail -3
  ctest --test-dir _build -j8 --timeout 900 2>&1 | tail -5        # all 45 tests must pass with your change applied
(the optional `l2m` target does not compile on this host - ignore that one target, hence `-k 0`; the build type matters:
the reference configuration is RelWithDebInfo, i.e. -O2 -g -DNDEBUG, in which all 45 tests pass on unchanged HEAD)
Only x86-64 Linux matters. Sources: mir.c (API, loader, linker, text/binary IO; includes mir-interp.c and mir-x86_64.c),
mir-gen.c (+ mir-gen-x86_64.c), c2mir/, mir2c/, header-only ADTs mir-htab.h mir-bitmap.h mir-varr.h mir-dlist.h
mir-reduce.h, docs MIR.md.

For EACH of the two changes deliver, in /tmp/seed/{pid}-out/1/ and /tmp/seed/{pid}-out/2/ :
  - patch.diff : output of `git diff` for that change alone against the worktree's HEAD (must apply with `git apply`
                 to a clean checkout of HEAD). Keep it small (a few lines).
  - a demonstration: a small self-contained program (demo.c / demo.mir ...) plus an executable script run_demo.sh that
    takes the root of a mir SOURCE tree as $1, compiles whatever it needs directly from the sources in $1 (e.g.
    `gcc -O2 -DNDEBUG -I$1 demo.c $1/mir.c $1/mir-gen.c -lm -ldl -lpthread`, or `$1/c2mir/c2mir.c` too if needed) into
    a fresh `mktemp -d` directory that it removes afterwards, runs it, and exits 0 if the behaviour is correct and
    non-zero if the property is visibly violated (print a clear PASS/FAIL line). run_demo.sh must FAIL on a tree with
    the change applied and PASS on unchanged HEAD. Verify both yourself. Also a short RUN.md saying the same in words.
  - notes.md : which behaviour breaks, why the existing tests do not notice, and exactly what is needed for it to
    manifest (input / sequence / configuration).
Work on one change at a time: apply, build, run ctest, run the demo, save `git diff` as patch.diff, then
`git checkout -- .` before starting the second one. At the end leave the worktree clean (git status shows no changes
other than the untracked _build directory) and confirm both patches apply cleanly to HEAD. Delete any other scratch
files you created outside /tmp/seed/{pid}-out. Do not commit anything.

Finish with a short report: for each change one paragraph (file/function touched, what breaks, what it needs to
manifest, test-suite result, demo result with and without the change).""")
