#!/bin/bash
# usage: demo_seed.sh <pid> <n> : runs the seed's demonstration on the unchanged and on the patched scratch worktree
pid=$1; n=$2; wt=/tmp/seed/$pid; out=/tmp/seed/$pid-out/$n
cd $wt && git checkout -q -- .
run_one () {
  tmp=$(mktemp -d /var/tmp/demo.XXXX)
  if [ -x $out/run_demo.sh ]; then ( cd $out && ./run_demo.sh $wt ) > $tmp/log 2>&1; rc=$?
  else
    if grep -q "mir.h\|mir-gen.h\|c2mir.h" $out/demo.c 2>/dev/null; then
      extra="$wt/mir.c $wt/mir-gen.c"; grep -q "c2mir.h" $out/demo.c && extra="$extra $wt/c2mir/c2mir.c"
    else extra=""; fi
    gcc -O1 -DNDEBUG -w -I$wt $out/demo.c $extra -lm -ldl -lpthread -o $tmp/demo > $tmp/log 2>&1 && ( cd $tmp && ./demo ) >> $tmp/log 2>&1; rc=$?
  fi
  tail -3 $tmp/log | cut -c1-200; rm -rf $tmp; return $rc
}
echo "== $pid/$n unchanged:"; run_one; r0=$?
git apply $out/patch.diff; echo "== $pid/$n patched:"; run_one; r1=$?
git checkout -q -- .
echo "DEMO $pid/$n unchanged_rc=$r0 patched_rc=$r1 $([ $r0 = 0 ] && [ $r1 != 0 ] && echo CONFIRMED || echo NOT-CONFIRMED)"
