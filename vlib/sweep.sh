#!/bin/bash
# usage: sweep.sh "C02 C10 ..." "1 2 3 4 5" [tier] : runs every check for every seed, prints one line per run.
# Evidence files written by the sweep are restored afterwards (evidence must come from the seed the manifest run uses).
props=$1; seeds=$2; tier=${3:-quick}
cd "$(dirname "$0")/.."
mkdir -p build/sweep
for p in $props; do
  cp -f evidence/$p.json build/sweep/$p.saved 2>/dev/null
  for s in $seeds; do
    out=$(./check $p --tier $tier --seed $s 2>&1)
    rc=$?
    echo "SWEEP $p seed=$s rc=$rc $(echo "$out" | grep -E "^$p tier" | tail -1) $(echo "$out" | grep -c '^VIOLATION') violations"
    [ $rc != 0 ] && echo "$out" | grep -E "^(--- violation|VIOLATION|CHECK-ERROR)" | head -6
  done
  [ -f build/sweep/$p.saved ] && mv -f build/sweep/$p.saved evidence/$p.json
done
