#!/usr/bin/env python3
"""creduce_lines.py <file.c> <c2m option list, e.g. "-ei" or "-O2 -eg"> : triage aid. Deletes lines of a generated C
program while gcc (with UBSan clean, -O0 == -O2) and c2m with the given options still disagree. Writes <file>.min.c"""
import os, subprocess, sys, tempfile
src = open(sys.argv[1]).read().split('\n')
eng = sys.argv[2].split()
C2M = '/verif/build/bin/c2m-asan'
d = tempfile.mkdtemp(dir='/verif/build/tmp')
def run(cmd):
    try:
        r = subprocess.run(cmd, cwd=d, stdout=subprocess.PIPE, stderr=subprocess.PIPE, timeout=20, env=dict(os.environ, ASAN_OPTIONS='detect_leaks=0'))
        return r.returncode, r.stdout
    except subprocess.TimeoutExpired:
        return -9, b''
def bad(lines):
    open(d + '/p.c', 'w').write('\n'.join(lines))
    if run(['gcc', '-O0', '-std=gnu11', '-fsanitize=undefined,float-cast-overflow', '-fno-sanitize-recover=all', '-Werror=return-type', '-Werror=uninitialized', '-o', 'ub', 'p.c'])[0] != 0: return False
    u = run(['./ub'])
    if run(['gcc', '-O2', '-w', '-std=gnu11', '-o', 'r2', 'p.c'])[0] != 0: return False
    r2 = run(['./r2'])
    if u != r2 or u[0] < 0: return False
    c = run([C2M, '-w'] + eng[:-1] + ['p.c', eng[-1]])
    return c != u and c[0] >= 0 and c[0] != 99 and len(c[1]) > 0
assert bad(src), 'not failing'
n = len(src)
chunk = max(1, n // 4)
while chunk >= 1:
    i = 0
    changed = False
    while i < len(src):
        cand = src[:i] + src[i + chunk:]
        if bad(cand):
            src = cand
            changed = True
        else:
            i += chunk
    if not changed or chunk == 1:
        chunk //= 2
open(sys.argv[1] + '.min.c', 'w').write('\n'.join(src))
print('\n'.join(src))
