#!/bin/bash
# usage (inside `vp run --with-repo`): seedsweep.sh : applies every seeded change to the run's private copy of the repository,
# runs the property's quick check (C07-1 also under C08) and reverts. One line per seed. Never touches /repo.
cd "$(dirname "$0")/.."
export VERIF_REPO=$VP_RUN_REPO
./check --setup >/dev/null 2>&1
for d in seeded/*/; do
  n=$(basename $d); p=${n%-*}
  props=$p; [ $n = C07-1 ] && props="C07 C08"
  for q in $props; do
    git -C $VERIF_REPO apply $PWD/$d/patch.diff || { echo "SEED $n $q APPLY-FAILED"; continue; }
    out=$(./check $q --tier quick 2>&1); rc=$?
    git -C $VERIF_REPO checkout -- .
    echo "SEED $n check=$q rc=$rc $(echo "$out" | grep -E '^--- violation' | head -2 | tr '\n' ' ')"
  done
done
