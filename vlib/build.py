"""Build cache: everything is compiled from /repo's *current working tree* into /verif/build.

A target is rebuilt iff the hash of (its source files' contents + command line) changed; flock
protects concurrent checks. Nothing is kept under /tmp."""
import fcntl
import hashlib
import os
import subprocess
import sys
import time
from concurrent.futures import ThreadPoolExecutor

VERIF = os.path.dirname(os.path.dirname(os.path.abspath(__file__)))
REPO = os.environ.get('VERIF_REPO', '/repo')
BUILD = os.path.join(VERIF, 'build')
SRC = os.path.join(VERIF, 'src')

# alloca red zones are switched off: MIR's interpreter allocas + non-instrumented JIT code / trampolines / longjmp leave
# stale alloca poison on the stack, which ASan then reports as dynamic-stack-buffer-overflow in unrelated frames
ASAN = ['-fsanitize=address', '-fno-omit-frame-pointer', '--param=asan-instrument-allocas=0']
UBSAN = ['-fsanitize=undefined', '-fno-sanitize=alignment', '-fno-sanitize-recover=undefined']


def _repo_sources():
    """All files a library TU may include (top-level *.c/*.h, c2mir/**, mir2c/**)."""
    out = []
    for root, sub in ((REPO, False), (os.path.join(REPO, 'c2mir'), True), (os.path.join(REPO, 'mir2c'), True),
                      (os.path.join(REPO, 'mir-utils'), True)):
        if not os.path.isdir(root):
            continue
        if sub:
            for d, _, fs in os.walk(root):
                for f in fs:
                    if f.endswith(('.c', '.h')):
                        out.append(os.path.join(d, f))
        else:
            for f in os.listdir(root):
                if f.endswith(('.c', '.h')):
                    out.append(os.path.join(root, f))
    return sorted(out)


_repo_hash_cache = None


def repo_hash():
    global _repo_hash_cache
    if _repo_hash_cache is None:
        h = hashlib.sha256()
        for p in _repo_sources():
            h.update(p.encode())
            with open(p, 'rb') as f:
                h.update(hashlib.sha256(f.read()).digest())
        _repo_hash_cache = h.hexdigest()[:16]
    return _repo_hash_cache


def files_hash(paths):
    h = hashlib.sha256()
    for p in paths:
        h.update(p.encode())
        with open(p, 'rb') as f:
            h.update(f.read())
    return h.hexdigest()[:16]


class Lock:
    def __init__(self, name):
        os.makedirs(BUILD, exist_ok=True)
        self.path = os.path.join(BUILD, '.lock.' + name.replace('/', '_'))

    def __enter__(self):
        self.f = open(self.path, 'w')
        fcntl.flock(self.f, fcntl.LOCK_EX)
        return self

    def __exit__(self, *a):
        fcntl.flock(self.f, fcntl.LOCK_UN)
        self.f.close()


def run(cmd, **kw):
    r = subprocess.run(cmd, stdout=subprocess.PIPE, stderr=subprocess.STDOUT, text=True, **kw)
    if r.returncode != 0:
        sys.stderr.write('BUILD FAILED: %s\n%s\n' % (' '.join(cmd), r.stdout[-6000:]))
        raise SystemExit(3)
    return r.stdout


def compile_obj(out, src, cmd_prefix, deps_hash):
    """Compile src -> out if stamp differs. cmd_prefix e.g. ['gcc','-O1',...]."""
    cmd = cmd_prefix + ['-c', src, '-o', out]
    stamp = hashlib.sha256((' '.join(cmd) + deps_hash).encode()).hexdigest()
    sp = out + '.stamp'
    if os.path.exists(out) and os.path.exists(sp) and open(sp).read() == stamp:
        return False
    os.makedirs(os.path.dirname(out), exist_ok=True)
    run(cmd)
    with open(sp, 'w') as f:
        f.write(stamp)
    return True


def parallel(jobs):
    """jobs: list of zero-arg callables."""
    if not jobs:
        return []
    with ThreadPoolExecutor(max_workers=min(16, len(jobs))) as ex:
        futs = [ex.submit(j) for j in jobs]
        return [f.result() for f in futs]


LIB_VARIANTS = {
    # no -DNDEBUG: mir_assert / gen_assert join every oracle
    'asan': dict(cc='gcc', flags=['-O1', '-g', '-std=gnu11', '-fsigned-char', '-fPIC', '-w', '-fno-tree-sra', '-fno-ipa-cp-clone'] + ASAN),
    'asan-inl0': dict(cc='gcc', flags=['-O1', '-g', '-std=gnu11', '-fsigned-char', '-fPIC', '-w', '-fno-tree-sra', '-fno-ipa-cp-clone',
                                        '-DMIR_MAX_INSNS_FOR_INLINE=0', '-DMIR_MAX_INSNS_FOR_CALL_INLINE=0'] + ASAN,
                      only=['mir']),
    'asan-inlmax': dict(cc='gcc', flags=['-O1', '-g', '-std=gnu11', '-fsigned-char', '-fPIC', '-w', '-fno-tree-sra', '-fno-ipa-cp-clone',
                                          '-DMIR_MAX_INSNS_FOR_INLINE=1500', '-DMIR_MAX_INSNS_FOR_CALL_INLINE=1500',
                                          '-DMIR_MAX_FUNC_INLINE_GROWTH=400', '-DMIR_MAX_CALLER_SIZE_FOR_ANY_GROWTH_INLINE=1500'] + ASAN,
                        only=['mir']),
    'tsan': dict(cc='clang', flags=['-O1', '-g', '-std=gnu11', '-fsigned-char', '-fPIC', '-w', '-fsanitize=thread']),
    'plain': dict(cc='gcc', flags=['-O2', '-g', '-std=gnu11', '-fsigned-char', '-fPIC', '-w', '-fno-tree-sra', '-fno-ipa-cp-clone', '-DNDEBUG']),
    'fuzz': dict(cc='clang', flags=['-O1', '-g', '-std=gnu11', '-fsigned-char', '-fPIC', '-w',
                                    '-fsanitize=fuzzer-no-link,address', '-fno-omit-frame-pointer']),
}
LIB_TUS = {'mir': 'mir.c', 'mir-gen': 'mir-gen.c', 'c2mir': 'c2mir/c2mir.c'}


def build_lib(variant, tus=('mir', 'mir-gen')):
    """Returns list of object paths for the requested TUs of the given variant."""
    v = LIB_VARIANTS[variant]
    d = os.path.join(BUILD, 'lib', variant)
    rh = repo_hash()
    objs = []
    jobs = []
    with Lock('lib-' + variant):
        for t in tus:
            if 'only' in v and t not in v['only']:
                raise ValueError('variant %s has no TU %s' % (variant, t))
            out = os.path.join(d, t + '.o')
            objs.append(out)
            cmd = [v['cc']] + v['flags'] + ['-I' + REPO, '-DMIR_PARALLEL_GEN']
            jobs.append(lambda out=out, t=t, cmd=cmd: compile_obj(out, os.path.join(REPO, LIB_TUS[t]), cmd, rh))
        parallel(jobs)
    return objs


def build_common():
    d = os.path.join(BUILD, 'common')
    srcs = [os.path.join(SRC, 'common', f) for f in ('runner.cc', 'rcglue.cc', 'runner.h', 'cs.h')]
    h = files_hash(srcs)
    with Lock('common'):
        parallel([
            lambda: compile_obj(os.path.join(d, 'runner.o'), os.path.join(SRC, 'common', 'runner.cc'),
                                ['g++', '-O1', '-g', '-std=gnu++17'] + ASAN, h),
            lambda: compile_obj(os.path.join(d, 'rcglue.o'), os.path.join(SRC, 'common', 'rcglue.cc'),
                                ['g++', '-O1', '-g', '-std=gnu++17'] + ASAN, h),
        ])
    return [os.path.join(d, 'runner.o'), os.path.join(d, 'rcglue.o')]


def build_common_tsan():
    d = os.path.join(BUILD, 'common-tsan')
    srcs = [os.path.join(SRC, 'common', f) for f in ('runner.cc', 'rcglue.cc', 'runner.h', 'cs.h')]
    h = files_hash(srcs)
    with Lock('common-tsan'):
        parallel([
            lambda: compile_obj(os.path.join(d, 'runner.o'), os.path.join(SRC, 'common', 'runner.cc'),
                                ['clang++', '-O1', '-g', '-std=gnu++17', '-fsanitize=thread'], h),
            lambda: compile_obj(os.path.join(d, 'rcglue.o'), os.path.join(SRC, 'common', 'rcglue.cc'),
                                ['clang++', '-O1', '-g', '-std=gnu++17', '-fsanitize=thread'], h),
        ])
    return [os.path.join(d, 'runner.o'), os.path.join(d, 'rcglue.o')]


def link(out, objs, extra=(), san=None, cxx='g++'):
    cmd = [cxx, '-o', out] + list(objs) + (['-fsanitize=address'] if san is None else list(san)) + ['-lrapidcheck', '-lm', '-ldl', '-lpthread'] + list(extra)
    stamp_src = ' '.join(cmd) + ''.join(str(os.path.getmtime(o)) for o in objs)
    stamp = hashlib.sha256(stamp_src.encode()).hexdigest()
    sp = out + '.stamp'
    if os.path.exists(out) and os.path.exists(sp) and open(sp).read() == stamp:
        return
    run(cmd)
    with open(sp, 'w') as f:
        f.write(stamp)


def harness_sources_hash(extra_files=()):
    fs = []
    for d, _, names in os.walk(SRC):
        for n in names:
            if n.endswith(('.h', '.hh', '.inc')):
                fs.append(os.path.join(d, n))
    return files_hash(sorted(fs) + list(extra_files))
