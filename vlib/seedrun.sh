#!/bin/bash
# usage: seedrun.sh <patch.diff> <property> [tier] [seed] -- apply a seeded change to /repo, run the check, undo
set -u
patch=$1; prop=$2; tier=${3:-quick}; seed=${4:-1}
cd /repo || exit 9
if ! git diff --quiet; then echo "repo dirty"; exit 9; fi
git apply "$patch" || { echo "patch does not apply"; exit 9; }
cd /verif
# evidence files must describe runs on the unchanged tree: keep the committed one
cp -f evidence/$prop.json /verif/build/evidence.$prop.saved 2>/dev/null
start=$(date +%s)
./check "$prop" --tier "$tier" --seed "$seed" > /verif/build/seedrun.$$.log 2>&1
rc=$?
end=$(date +%s)
git -C /repo checkout -- .
[ -f /verif/build/evidence.$prop.saved ] && mv -f /verif/build/evidence.$prop.saved evidence/$prop.json
grep -E "^(VIOLATION|KNOWN-FINDING|CHECK-ERROR|--- violation|C[0-9][0-9] tier)" /verif/build/seedrun.$$.log | head -12
echo "seedrun: patch=$patch prop=$prop tier=$tier seed=$seed rc=$rc wall=$((end-start))s"
rm -f /verif/build/seedrun.$$.log
exit $rc
