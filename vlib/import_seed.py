#!/usr/bin/env python3
"""import_seed.py <pid> <n> <summary> : copy a confirmed seeded change into /verif/seeded/<pid>-<n>/ with meta.json"""
import json, os, shutil, sys
pid, n, summary = sys.argv[1], sys.argv[2], sys.argv[3]
src = '/tmp/seed/%s-out/%s' % (pid, n)
dst = '/verif/seeded/%s-%s' % (pid, n)
os.makedirs(dst, exist_ok=True)
for f in os.listdir(src):
    if f.startswith('demo') and os.path.isfile(os.path.join(src, f)) and os.access(os.path.join(src, f), os.X_OK) and not f.endswith('.sh'):
        continue  # skip built binaries
    if os.path.isfile(os.path.join(src, f)):
        shutil.copy(os.path.join(src, f), dst)
notes = open(os.path.join(src, 'notes.md')).read() if os.path.exists(os.path.join(src, 'notes.md')) else ''
meta = {
    'property': pid,
    'summary': summary,
    'needs_to_manifest': notes[:1500],
    'confirmed': {
        'applies_to_head': True,
        'test_suite': '45/45 pass with the change (cmake RelWithDebInfo, ctest) - vlib/confirm_seed.sh',
        'demo': 'fails with the change, passes without - vlib/demo_seed.sh',
    },
    'detected_by': [],
}
json.dump(meta, open(os.path.join(dst, 'meta.json'), 'w'), indent=1)
print('imported', dst)
