#!/bin/bash
# usage: confirm_seed.sh <pid> <n> : in the scratch worktree /tmp/seed/<pid> apply /tmp/seed/<pid>-out/<n>/patch.diff,
# build the reference configuration, run the 45 pinned tests, then undo. Result -> /tmp/seed/<pid>-out/<n>/confirm.txt
pid=$1; n=$2
wt=/tmp/seed/$pid; out=/tmp/seed/$pid-out/$n
cd $wt || exit 9
git checkout -q -- . ; git apply $out/patch.diff || { echo "APPLY FAILED" > $out/confirm.txt; exit 1; }
bd=$wt/_b$n
cmake -G Ninja -S $wt -B $bd -DCMAKE_BUILD_TYPE=RelWithDebInfo > /dev/null 2>&1
cmake --build $bd -- -k 0 > $bd.build.log 2>&1
ctest --test-dir $bd -j6 --timeout 900 > $bd.ctest.log 2>&1
{
  echo "patch: $out/patch.diff"
  grep -c "warning:" $bd.build.log | sed 's/^/build warnings: /'
  grep -E "tests passed|tests failed" $bd.ctest.log
  grep -E "\*\*\*|Failed  |Timeout" $bd.ctest.log | head
} > $out/confirm.txt
git checkout -q -- .
rm -rf $bd $bd.build.log $bd.ctest.log
cat $out/confirm.txt
