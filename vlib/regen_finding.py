#!/usr/bin/env python3
"""regen_finding.py <Fid> [max_success] [extra harness args...]

Replay byte streams are decoded by the generator of the day; when a generator changes, the stream of a *fixed*
finding no longer describes the program that failed.  This helper re-finds it: it reverts the fix commit in
/repo's working tree (git revert -n, undone with git reset --hard afterwards; /repo must be clean), runs 8 workers
of the property's harness with different seeds, and stores the first failure whose signature matches the
finding's sig_regex as the new replay file.  Only for maintenance; never run by a registered check."""
import json, os, re, subprocess, sys, tempfile
sys.path.insert(0, '/verif')
from vlib import props

fid = sys.argv[1]
n = sys.argv[2] if len(sys.argv) > 2 else '3000'
extra = sys.argv[3:]
kf = json.load(open('/verif/known_findings.json'))
f = [x for x in kf['findings'] if x['id'] == fid][0]
assert f['status'] == 'fixed'
if subprocess.run(['git', '-C', '/repo', 'diff', '--quiet']).returncode != 0:
    sys.exit('repo dirty')
commit = f['commit']
subprocess.check_call(['git', '-C', '/repo', 'revert', '-n', commit])
try:
    spec = props.SPECS[f['property']]
    bins = spec.build()
    b = bins[f.get('bin', 'main')]
    stage = [s for s in spec.stages if s.bin == f.get('bin', 'main')][0]
    opts = []
    for k, v in (stage.opts or {}).items():
        opts += ['--opt', '%s=%s' % (k, v)]
    procs = []
    d = tempfile.mkdtemp(dir='/verif/build')
    env = dict(os.environ, ASAN_OPTIONS='detect_leaks=0:exitcode=99:allocator_may_return_null=1',
               UBSAN_OPTIONS='print_stacktrace=1:halt_on_error=1')
    for s in range(21, 29):
        out = '%s/r%d.json' % (d, s)
        e = dict(env, RC_PARAMS='seed=%d max_success=%s max_size=100' % (s, n))
        procs.append((out, subprocess.Popen([b, '--pbt', '--out', out, '--opt', 'deadline=200'] + opts + extra, env=e,
                                            stdout=subprocess.DEVNULL, stderr=subprocess.DEVNULL)))
    found = None
    for out, p in procs:
        p.wait()
        try:
            r = json.load(open(out))
        except Exception:
            continue
        fl = r.get('failure')
        print(out, r.get('evaluations'), fl and fl['sig'])
        if fl and re.search(f['sig_regex'], fl['sig']) and not found:
            found = fl
    if found:
        rp = '/verif/' + f['replay']
        old = json.load(open(rp)) if os.path.exists(rp) else {}
        old.update({k: found[k] for k in ('sig', 'detail', 'case', 'bytes_hex') if k in found})
        old.setdefault('property', f['property'])
        old.setdefault('bin', f.get('bin', 'main'))
        old['opts'] = dict(stage.opts or {})
        if '--exclude' in extra:
            old['exclude'] = extra[extra.index('--exclude') + 1]
        json.dump(old, open(rp, 'w'), indent=1)
        print('REGENERATED', rp, found['sig'])
    else:
        print('NOT FOUND')
finally:
    subprocess.check_call(['git', '-C', '/repo', 'reset', '-q', '--hard', 'HEAD'])
