"""Check driver: builds, runs replay corpus + worker pool, merges counters, writes evidence,
matches failures against known_findings.json and prints the verdict lines."""
import hashlib
import json
import os
import re
import struct
import subprocess
import sys
import time

from . import build as B

VERIF = B.VERIF
EVID = os.path.join(VERIF, 'evidence')
REPLAYS = os.path.join(B.BUILD, 'replays')
FINDINGS_FILE = os.path.join(VERIF, 'known_findings.json')

ASAN_OPTIONS = 'detect_leaks=0:abort_on_error=0:exitcode=99:allocator_may_return_null=1:handle_abort=0:detect_stack_use_after_return=0'
UBSAN_OPTIONS = 'halt_on_error=1:print_stacktrace=1:exitcode=98'
TSAN_OPTIONS = 'halt_on_error=0:exitcode=66:report_signal_unsafe=0'


class Stage:
    def __init__(self, bin, mode='pbt', workers=8, quick=None, thorough=None, shards=0, opts=None, name=None,
                 args=None):
        self.bin, self.mode, self.workers = bin, mode, workers
        self.params = {'quick': quick or {}, 'thorough': thorough or quick or {}}
        self.shards = shards
        self.opts = opts or {}
        self.name = name or ('%s-%s' % (bin, mode))
        self.args = args or []


class Spec:
    def __init__(self, pid, build, stages, rule, assumptions, level='exploration', exhaustive_note=None,
                 extra=None):
        self.pid, self.build, self.stages, self.rule, self.assumptions = pid, build, stages, rule, assumptions
        self.level = level
        self.exhaustive_note = exhaustive_note
        self.extra = extra  # optional callable(ctx) -> dict merged into coverage / may report failures


def load_findings(pid):
    if not os.path.exists(FINDINGS_FILE):
        return []
    with open(FINDINGS_FILE) as f:
        data = json.load(f)
    return [e for e in data.get('findings', []) if e.get('property') == pid]


def env_for_worker(seed, params):
    e = dict(os.environ)
    e['ASAN_OPTIONS'] = ASAN_OPTIONS
    e['UBSAN_OPTIONS'] = UBSAN_OPTIONS
    e['TSAN_OPTIONS'] = TSAN_OPTIONS
    seed = abs(int(seed)) % (1 << 62)  # any VERIF_SEED value is acceptable
    rc = 'seed=%d' % (seed if seed != 0 else 1)
    for k in ('max_success', 'max_size', 'max_discard_ratio'):
        if k in params:
            rc += ' %s=%s' % (k, params[k])
    e['RC_PARAMS'] = rc
    return e


def run_replay(binpath, path, extra_args=()):
    e = dict(os.environ)
    e['ASAN_OPTIONS'] = ASAN_OPTIONS
    e['UBSAN_OPTIONS'] = UBSAN_OPTIONS
    e['TSAN_OPTIONS'] = TSAN_OPTIONS
    extra_args = list(extra_args)
    try:
        with open(path) as f:
            rj = json.load(f)
    except Exception:
        rj = {}
    if not extra_args:
        for k, v in (rj.get('opts') or {}).items():
            extra_args += ['--opt', '%s=%s' % (k, v)]
    # the generator configuration depends on which recorded findings were excluded when the case was found
    if rj.get('exclude'):
        extra_args += ['--exclude', rj['exclude']]
    r = subprocess.run([binpath, '--replay', path] + list(extra_args), stdout=subprocess.PIPE,
                       stderr=subprocess.PIPE, text=True, env=e, errors='replace')
    m = re.search(r'REPLAY verdict=(\w+) fails=(\d+)/(\d+) sig=(.*)', r.stdout)
    if not m:
        return 'ERROR', '', r.stdout + r.stderr
    return m.group(1), m.group(4).strip(), r.stdout


def read_hashes(path):
    try:
        with open(path, 'rb') as f:
            b = f.read()
        return set(struct.unpack('<%dQ' % (len(b) // 8), b[:len(b) // 8 * 8]))
    except OSError:
        return set()


def check(spec, tier, seed, only_replay=None):
    t0 = time.time()
    pid = spec.pid
    os.makedirs(EVID, exist_ok=True)
    os.makedirs(REPLAYS, exist_ok=True)
    bins = spec.build()
    findings = load_findings(pid)
    known = [f for f in findings if f.get('status') == 'known']
    fixed = [f for f in findings if f.get('status') == 'fixed']
    exclude = ','.join(f['id'] for f in known)
    violations = []  # (sig, replay_path, text)
    known_lines = []
    notes = []

    def default_bin():
        return spec.stages[0].bin if spec.stages else sorted(bins)[0]

    if only_replay:
        binkey = default_bin()
        try:
            with open(only_replay) as f:
                binkey = json.load(f).get('bin', binkey)
        except Exception:
            pass
        verdict, sig, out = run_replay(bins[binkey], only_replay)
        print(out)
        if verdict == 'FAIL':
            print('VIOLATION property=%s replay=%s' % (pid, only_replay))
            return 1
        return 0

    # ---- 1. replay corpus: known findings must still be recognised, fixed ones must stay fixed
    replayed = 0
    for f in findings:
        rp = f.get('replay')
        if not rp:
            continue
        path = os.path.join(VERIF, rp)
        binkey = f.get('bin', default_bin())
        verdict, sig, out = run_replay(bins[binkey], path)
        replayed += 1
        if f['status'] == 'known':
            if verdict == 'FAIL':
                known_lines.append('KNOWN-FINDING: property=%s %s [%s] %s' % (pid, f['id'], sig, f['what']))
            else:
                notes.append('known finding %s did not reproduce (verdict %s)' % (f['id'], verdict))
        else:
            if verdict == 'FAIL':
                # the same input may now run into a *recorded* finding that lay behind the repaired one
                other = None
                if not re.search(f['sig_regex'], sig):
                    for k_ in known:
                        if re.search(k_['sig_regex'], sig) and ('match_detail' not in k_ or re.search(k_['match_detail'], out)):
                            other = k_
                            break
                if other is not None:
                    line = 'KNOWN-FINDING: property=%s %s [%s] %s' % (pid, other['id'], sig, other['what'])
                    if line not in known_lines:
                        known_lines.append(line)
                else:
                    violations.append((sig, path, 'regression of fixed finding %s: %s' % (f['id'], f['what'])))
            elif verdict not in ('PASS',):
                notes.append('fixed finding %s replay verdict %s' % (f['id'], verdict))

    # ---- 2. worker pool per stage
    merged = dict(evaluations=0, passed=0, failed=0, discarded=0, labels={}, discard_reasons={}, samples=[],
                  stages=[])
    all_hashes = set()
    wdir = os.path.join(B.BUILD, 'work', pid)
    os.makedirs(wdir, exist_ok=True)
    for fn in os.listdir(wdir):
        try:
            os.unlink(os.path.join(wdir, fn))
        except OSError:
            pass

    def launch(stage, k, wseed, fork=False):
        out = os.path.join(wdir, '%s.%d.json' % (stage.name, k))
        for p in (out, out + '.hashes'):
            if os.path.exists(p):
                os.unlink(p)
        params = stage.params[tier]
        cmd = [bins[stage.bin], '--' + stage.mode, '--out', out, '--tier', tier] + list(stage.args)
        if exclude:
            cmd += ['--exclude', exclude]
        opts = dict(stage.opts)
        opts.update(params.get('opts', {}))
        if stage.mode == 'enum' and stage.shards:
            opts['shard'] = '%d/%d' % (k, stage.shards)
        if 'deadline' in params:
            opts['deadline'] = params['deadline']
        for ok, ov in opts.items():
            cmd += ['--opt', '%s=%s' % (ok, ov)]
        if fork:
            cmd.append('--fork')
        log = open(out + '.log', 'w')
        p = subprocess.Popen(cmd, stdout=log, stderr=subprocess.STDOUT, env=env_for_worker(wseed, params))
        return dict(proc=p, out=out, stage=stage, k=k, seed=wseed, cmd=cmd, fork=fork, retries=0, log=log)

    def collect(w):
        try:
            with open(w['out']) as f:
                return json.load(f)
        except Exception:
            return None

    maxpar = 16
    for stage in spec.stages:
        n = stage.shards if stage.mode == 'enum' and stage.shards else stage.workers
        n = stage.params[tier].get('workers', n)
        pending = [(k, seed * 1000003 + k * 7919 + 1) for k in range(n)]
        running = []
        results = []
        while pending or running:
            while pending and len(running) < maxpar:
                k, ws = pending.pop(0)
                running.append(launch(stage, k, ws))
            time.sleep(0.05)
            still = []
            for w in running:
                if w['proc'].poll() is None:
                    still.append(w)
                    continue
                w['log'].close()
                res = collect(w)
                if res is None or not res.get('done'):
                    if not w['fork']:
                        # in-process worker died: same seed again under fork isolation (then it shrinks)
                        nw = launch(stage, w['k'], w['seed'], fork=True)
                        still.append(nw)
                        continue
                    txt = ''
                    try:
                        txt = open(w['out'] + '.log').read()[-3000:]
                    except OSError:
                        pass
                    print('CHECK-ERROR property=%s worker %s/%d produced no result (rc=%s)\n%s' %
                          (pid, stage.name, w['k'], w['proc'].returncode, txt))
                    return 3
                fail = res.get('failure')
                handled_known = False
                if fail:
                    sig = fail.get('sig', '')
                    rid = hashlib.sha256((sig + fail.get('bytes_hex', '')).encode()).hexdigest()[:12]
                    rpath = os.path.join(REPLAYS, '%s-%s.json' % (pid, rid))
                    with open(rpath, 'w') as f:
                        json.dump(dict(property=pid, bin=stage.bin, stage=stage.name, tier=tier, seed=w['seed'],
                                       sig=sig, detail=fail.get('detail', ''), case=fail.get('case', ''),
                                       bytes_hex=fail.get('bytes_hex', ''),
                                       opts=stage.opts, exclude=exclude, repo_hash=B.repo_hash()), f, indent=1)
                    if fail.get('bytes_hex', '') == '' and stage.mode == 'enum':
                        verdict, rsig = 'FAIL', sig  # enumerated case: deterministic by construction
                    else:
                        verdict, rsig, _ = run_replay(bins[stage.bin], rpath,
                                                      sum((['--opt', '%s=%s' % kv] for kv in stage.opts.items()), []))
                    kf = None
                    for f_ in known:
                        if re.search(f_['sig_regex'], sig) and (
                                'match_detail' not in f_ or re.search(f_['match_detail'], fail.get('detail', '') + fail.get('case', ''))):
                            kf = f_
                            break
                    if verdict == 'FAIL' and kf is None:
                        violations.append((sig, rpath, fail.get('detail', '')[:2000]))
                    elif verdict == 'FAIL' and kf is not None:
                        line = 'KNOWN-FINDING: property=%s %s [%s] %s' % (pid, kf['id'], sig, kf['what'])
                        if line not in known_lines:
                            known_lines.append(line)
                        handled_known = True
                    else:
                        notes.append('failure with sig %s did not reproduce 3/3 (replay verdict %s): not reported; %s'
                                     % (sig, verdict, rpath))
                        merged['labels']['unreproducible_failure'] = merged['labels'].get('unreproducible_failure', 0) + 1
                results.append(res)
                if handled_known and w['retries'] < 2:
                    # campaign stopped at a known finding the generator failed to exclude: continue elsewhere
                    nw = launch(stage, w['k'], w['seed'] + 104729 * (w['retries'] + 1), fork=w['fork'])
                    nw['retries'] = w['retries'] + 1
                    still.append(nw)
            running = still
            if violations and tier == 'quick':
                pass  # let the other workers finish; they are bounded by case count
        st = dict(stage=stage.name, workers=n, evaluations=0)
        for k_, res in enumerate(results):
            merged['evaluations'] += res['evaluations']
            st['evaluations'] += res['evaluations']
            merged['passed'] += res['pass']
            merged['failed'] += res['fail']
            merged['discarded'] += res['discarded']
            for kk, v in res['labels'].items():
                merged['labels'][kk] = merged['labels'].get(kk, 0) + v
            for kk, v in res['discard_reasons'].items():
                merged['discard_reasons'][kk] = merged['discard_reasons'].get(kk, 0) + v
            if len(merged['samples']) < 12:
                merged['samples'].extend(res['samples'][:2])
        for fn in os.listdir(wdir):
            if fn.startswith(stage.name + '.') and fn.endswith('.hashes'):
                all_hashes |= read_hashes(os.path.join(wdir, fn))
        merged['stages'].append(st)

    extra_cov = {}
    if spec.extra:
        ctx = dict(bins=bins, tier=tier, seed=seed, violations=violations, known=known, known_lines=known_lines,
                   notes=notes, wdir=wdir, exclude=exclude)
        extra_cov = spec.extra(ctx) or {}

    # ---- 3. evidence
    cov = dict(evaluations=merged['evaluations'] + extra_cov.pop('evaluations', 0),
               distinct_nontrivial=len(all_hashes) + extra_cov.pop('distinct_nontrivial', 0),
               rule=spec.rule,
               samples=(merged['samples'] + extra_cov.pop('samples', []))[:14],
               discarded=merged['discarded'], discard_reasons=merged['discard_reasons'],
               class_counts=dict(sorted(merged['labels'].items())),
               stages=merged['stages'], replay_corpus_cases=replayed,
               known_findings=[l for l in known_lines], notes=notes,
               repo_tree_hash=B.repo_hash())
    if spec.exhaustive_note:
        cov['exhaustive_part'] = spec.exhaustive_note
    cov.update(extra_cov)
    ev = dict(property_id=pid, tier=tier, seed=seed, level=spec.level, coverage=cov,
              assumptions=spec.assumptions, wall_s=round(time.time() - t0, 2), violations=len(violations))
    with open(os.path.join(EVID, pid + '.json'), 'w') as f:
        json.dump(ev, f, indent=1)

    for l in known_lines:
        print(l)
    for nline in notes:
        print('NOTE: ' + nline)
    print('%s tier=%s seed=%d evaluations=%d distinct_nontrivial=%d discarded=%d wall=%.1fs' %
          (pid, tier, seed, cov['evaluations'], cov['distinct_nontrivial'], cov['discarded'], time.time() - t0))
    if violations:
        seen = set()
        for sig, rpath, text in violations:
            if sig in seen:
                continue
            seen.add(sig)
            print('--- violation sig=%s\n%s' % (sig, text))
            print('VIOLATION property=%s replay=%s' % (pid, rpath))
        return 1
    return 0
